"""Directory-listing order as a generated schedule.

The order in which os.scandir() returns entries is a property of the file system
(creation order on tmpfs, hash order on ext4, ...).  Code that walks a tree and
can be killed midway (shutil.rmtree in `cond clean`, shutil.copytree in
`cond restore`) is therefore run under an explicit, generated order.  Installed in
the forked child only (run_cond(pre=...)).
"""
import hashlib
import os


class _Listing:
    def __init__(self, entries):
        self._entries = entries
        self._it = iter(entries)

    def __iter__(self):
        return self

    def __next__(self):
        return next(self._it)

    def __enter__(self):
        return self

    def __exit__(self, *a):
        return False

    def close(self):
        pass


def install(order):
    """order: "fs" (leave alone) | "sorted" | "reversed" | int (seeded pseudo-random permutation)."""
    if order in (None, "fs"):
        return
    real = os.scandir

    def key(name):
        if isinstance(name, bytes):
            name = os.fsdecode(name)
        if isinstance(order, int):
            return hashlib.sha1(("%d:%s" % (order, name)).encode("utf-8", "surrogateescape")).hexdigest()
        return name

    def scandir(path="."):
        with real(path) as it:
            entries = list(it)
        entries.sort(key=lambda e: key(e.name), reverse=(order == "reversed"))
        return _Listing(entries)

    os.scandir = scandir
