"""Virtual kernel + interposition (DESIGN §2.3).

Conductor's executor, SigchldHelper and CPython's real subprocess.Popen code run
unmodified against a simulated process table.  `install()` must be called before
`conductor` is imported.  While no kernel is active every wrapper delegates to
the real function.
"""
import errno
import os
import select
import signal
import subprocess
import sys
import threading
import time

_real_fork_exec = subprocess._fork_exec
_real_waitpid = os.waitpid
_real_read = os.read
_real_getpgid = os.getpgid
_real_killpg = os.killpg
_real_kill = os.kill
_real_time = time.time
_real_select = select.select
_sleep = time.sleep

_ACTIVE = None  # the active Kernel, if any
_INSTALLED = False
_SUBPROCESS_FILE = subprocess.__file__
_MAIN_THREAD = threading.main_thread()

VPID_BASE = 4_000_000


class HarnessError(Exception):
    pass


class Proc:
    __slots__ = (
        "pid", "task", "state", "status", "fds", "out", "err", "foreign",
        "termed", "env", "spawn_idx", "files", "exit_idx",
    )

    def __init__(self, pid, task):
        self.pid = pid
        self.task = task
        self.state = "running"  # running | zombie | reaped
        self.status = 0  # wait status
        self.fds = []  # [stdout dup or None, stderr dup or None]
        self.out = b""
        self.err = b""
        self.foreign = False
        self.termed = False
        self.env = {}
        self.files = None
        self.spawn_idx = -1
        self.exit_idx = -1


def _wait_status(outcome):
    """outcome dict -> wait status as returned by waitpid."""
    if "signal" in outcome:
        return int(outcome["signal"]) & 0x7F
    return (int(outcome.get("exit", 0)) & 0xFF) << 8


class Kernel:
    """
    spec keys (all optional):
      tape      list[int]   schedule
      outcomes  {task_id_str: {"exit": n} | {"signal": s} | {"launch": "eagain"|"enoent"|"eacces"}}
      output    {task_id_str: [[fd, bytes-as-latin1-str], ...]}  what the child writes
      files     {task_id_str: {"start": [[rel, text]], "ok": [[rel, text]]}} files written into COND_OUT
      foreign   int         number of unrelated children pre-registered
      clock     float       value of time.time()
      clock_step float      added after every time.time() call
      term      "die"|"ignore"
    """

    def __init__(self, spec, root=None):
        self.spec = spec or {}
        self.tape = list(self.spec.get("tape") or [])
        self.tape_pos = 0
        self.outcomes = self.spec.get("outcomes") or {}
        self.output = self.spec.get("output") or {}
        self.files = self.spec.get("files") or {}
        self.clock = self.spec.get("clock")
        self.clock_step = self.spec.get("clock_step", 0.0)
        self.term = self.spec.get("term", "die")
        self.root = os.path.realpath(root) if root else None
        self.procs = {}
        self.next_pid = VPID_BASE
        self.events = []
        self.pending = False
        self.in_point = 0
        self.fatal = None  # callback(kind, detail)
        self.activity = 0
        self.by_watchdog = False
        self._idle_selects = 0
        self._quiet_selects = 0
        self.stats = {
            "coalesced": 0, "exit_before_reg": 0, "popen_race": 0,
            "foreign_exit": 0, "exit_in_handler": 0, "max_running": 0,
            "handler_runs": 0,
        }
        self._in_handler = 0
        self._last_spawn_pid = None
        for _ in range(int(self.spec.get("foreign", 0))):
            p = Proc(self._new_pid(), None)
            p.foreign = True
            self.procs[p.pid] = p
            self.log("foreign", pid=p.pid)

    # ------------------------------------------------------------------
    def log(self, kind, **kw):
        kw["e"] = kind
        self.events.append(kw)
        self.activity += 1
        return len(self.events) - 1

    def start_watchdog(self, idle_s=2.0):
        """If the main thread sits in a lock wait (e.g. joining a tee thread that
        waits for EOF from a child that nobody killed), virtual children would
        never make progress.  A real child eventually ends by itself: after
        `idle_s` without any kernel activity the watchdog lets all running
        children exit (logged with watchdog=True)."""
        def loop():
            last, since = -1, _real_time()
            while True:
                _sleep(0.05)
                now = _real_time()
                if self.activity != last:
                    last, since = self.activity, now
                    continue
                if now - since >= idle_s and self.running():
                    self.by_watchdog = True
                    try:
                        for p in self.running():
                            self._exit_proc(p)
                    finally:
                        self.by_watchdog = False
                    since = now
        t = threading.Thread(target=loop, daemon=True, name="vf-watchdog")
        t.start()

    def _new_pid(self):
        self.next_pid += 1
        return self.next_pid

    def _tape_next(self):
        if self.tape_pos < len(self.tape):
            v = self.tape[self.tape_pos]
            self.tape_pos += 1
            return int(v)
        return 0

    def running(self, first=None):
        r = [p for p in self.procs.values() if p.state == "running"]
        r.sort(key=lambda p: (p.pid != first, p.pid))
        return r

    def is_virtual(self, pid):
        return pid in self.procs

    # ------------------------------------------------------------------
    def _exit_proc(self, p):
        if p.state != "running":
            return
        p.state = "zombie"
        outcome = {} if p.foreign else self.outcomes.get(p.task, {})
        if p.termed:
            p.status = signal.SIGTERM
        elif p.foreign:
            # unrelated children end with statuses no task uses, alternately success / failure
            p.status = (77 << 8) if p.pid % 2 else 0
        else:
            p.status = _wait_status(outcome)
        # Files the task leaves in its output directory on success.
        if not p.foreign and p.status == 0:
            self._write_files(p, "ok")
            if outcome.get("argsdir") and p.env.get("COND_OUT"):
                # the command leaves DIRECTORIES with the reserved names behind: Conductor cannot write its records
                for nm in ("args.json", "options.json"):
                    os.makedirs(os.path.join(p.env["COND_OUT"], nm, "x"), exist_ok=True)
            if outcome.get("rmout") and p.env.get("COND_OUT"):
                # the command exits 0 after having removed (or moved away) its own output directory
                import shutil
                shutil.rmtree(p.env["COND_OUT"], ignore_errors=True)
        # The bytes the child wrote (in order), then close => EOF for readers.
        chunks = [] if p.foreign or p.termed else self.output.get(p.task, [])
        for fd_no, data in chunks:
            fd = p.fds[fd_no - 1] if p.fds else None
            if fd is None:
                continue
            b = data.encode("latin-1") if isinstance(data, str) else data
            view = memoryview(b)
            while len(view):
                n = os.write(fd, view)
                view = view[n:]
        for fd in p.fds:
            if fd is not None:
                try:
                    os.close(fd)
                except OSError:
                    pass
        p.fds = []
        p.exit_idx = self.log("exit", pid=p.pid, task=p.task, status=p.status,
                              foreign=p.foreign, watchdog=self.by_watchdog)
        if p.foreign:
            self.stats["foreign_exit"] += 1
        if self._in_handler:
            self.stats["exit_in_handler"] += 1
        self.pending = True

    def _write_files(self, p, when):
        spec = self.files.get(p.task) or self.files.get("*")
        if not spec:
            return
        out = p.env.get("COND_OUT")
        if not out:
            return
        for rel, text in spec.get(when, []):
            rel = rel.replace("{pid}", str(p.pid)).replace("{n}", str(p.spawn_idx))
            path = os.path.join(out, rel)
            os.makedirs(os.path.dirname(path), exist_ok=True)
            if text is None:
                os.makedirs(path, exist_ok=True)
            elif text == "DELETE:":
                if os.path.lexists(path):
                    os.unlink(path)
            else:
                with open(path, "wb") as f:
                    f.write(text.encode("latin-1") if isinstance(text, str) else text)

    def deliver(self):
        """Run the Python-level SIGCHLD handler for pending exits."""
        while self.pending:
            self.pending = False
            h = signal.getsignal(signal.SIGCHLD)
            if callable(h):
                self.stats["handler_runs"] += 1
                self._in_handler += 1
                before = len(self.events)
                try:
                    h(signal.SIGCHLD, sys._getframe(1))
                finally:
                    self._in_handler -= 1
                reaped = sum(1 for ev in self.events[before:]
                             if ev["e"] == "reap" and ev.get("by") == "handler")
                if reaped >= 2:
                    self.stats["coalesced"] += 1

    def point(self, kind, polled=None, blocking=False):
        """A scheduling point in the main thread.  Returns 'after' if the
        handler has to run after the caller's syscall."""
        self.activity += 1
        entry = self._tape_next()
        mode = entry & 1
        sel = entry >> 1
        run = self.running(first=polled)
        chosen = [p for i, p in enumerate(run) if (sel >> i) & 1]
        if blocking and not chosen and run and not self.pending:
            chosen = [run[sel % len(run)]]
        for p in chosen:
            if polled is not None and p.pid == polled and mode == 1:
                self.stats["popen_race"] += 1
            self._exit_proc(p)
        if mode == 0 or blocking:
            self.deliver()
            return None
        return "after" if self.pending else None

    # ------------------------------------------------------------------
    # wrappers' back-ends
    def fork_exec(self, args, kw_args):
        (argv, executable_list, close_fds, fds_to_keep, cwd, env_list,
         p2cread, p2cwrite, c2pread, c2pwrite, errread, errwrite,
         errpipe_read, errpipe_write) = kw_args[:14]
        env = {}
        for item in env_list or []:
            k, _, v = item.partition(b"=")
            env[os.fsdecode(k)] = os.fsdecode(v)
        task = self._task_of(env)
        outcome = self.outcomes.get(task, {})
        if any(b"\x00" in (a if isinstance(a, bytes) else os.fsencode(a)) for a in argv):
            # what the real _posixsubprocess.fork_exec does for such an argument
            self.log("launchfail", task=task, errno=0, argv=[os.fsdecode(a) for a in argv],
                     cwd=os.fsdecode(cwd) if cwd is not None else None,
                     env={k: v for k, v in env.items() if k.startswith("COND_")}, nul=True)
            raise ValueError("embedded null byte")

        entry = self._tape_next()
        mode = entry & 1
        sel = entry >> 1
        if mode == 0:
            run = self.running()
            for i, p in enumerate(run):
                if (sel >> i) & 1:
                    self._exit_proc(p)
            self.deliver()

        out_dir = env.get("COND_OUT")
        listing = None
        if out_dir is not None and os.path.isdir(out_dir):
            listing = sorted(os.listdir(out_dir))
            sizes = {n: os.path.getsize(os.path.join(out_dir, n))
                     for n in listing if os.path.isfile(os.path.join(out_dir, n))}
        else:
            sizes = {}
        cwd_s = os.fsdecode(cwd) if cwd is not None else None
        cond_env = {k: v for k, v in env.items() if k.startswith("COND_")}
        inherited = all(env.get(k) == v for k, v in os.environ.items()
                        if not k.startswith("COND_"))
        if outcome.get("launch") == "eagain":
            self.log("launchfail", task=task, errno=errno.EAGAIN, argv=[os.fsdecode(a) for a in argv],
                     cwd=cwd_s, env=cond_env)
            raise BlockingIOError(errno.EAGAIN, os.strerror(errno.EAGAIN))

        pid = self._new_pid()
        p = Proc(pid, task)
        p.env = env
        p.fds = [os.dup(c2pwrite) if c2pwrite != -1 else None,
                 os.dup(errwrite) if errwrite != -1 else None]
        p.spawn_idx = self.log(
            "spawn", pid=pid, task=task, argv=[os.fsdecode(a) for a in argv],
            exe=[os.fsdecode(e) for e in executable_list], cwd=cwd_s, env=cond_env,
            inherited=inherited, listing=listing, sizes=sizes,
            out_exists=listing is not None,
            stdout=("pipe" if c2pread != -1 else ("none" if c2pwrite == -1 else "file")),
            new_session=bool(kw_args[15]) if len(kw_args) > 15 else None,
        )
        self.procs[pid] = p
        self._last_spawn_pid = pid
        nrun = len(self.running())
        if nrun > self.stats["max_running"]:
            self.stats["max_running"] = nrun
        self._write_files(p, "start")

        if outcome.get("launch") in ("enoent", "eacces"):
            # exec failed in the child: report through errpipe, child exits 255
            code = errno.ENOENT if outcome["launch"] == "enoent" else errno.EACCES
            os.write(errpipe_write, b"OSError:%x:" % code)
            p.state = "zombie"
            p.status = 255 << 8
            for fd in p.fds:
                if fd is not None:
                    os.close(fd)
            p.fds = []
            self.log("launchfail", task=task, errno=code, pid=pid)
            p.exit_idx = self.log("exit", pid=pid, task=task, status=p.status, foreign=False, execfail=True)
            return pid

        if mode == 1:
            run = self.running(first=pid)
            did = False
            for i, q in enumerate(run):
                if (sel >> i) & 1:
                    if q.pid == pid:
                        self.stats["exit_before_reg"] += 1
                    self._exit_proc(q)
                    did = True
            if did:
                self.deliver()
        return pid

    def _task_of(self, env):
        out = env.get("COND_OUT")
        name = env.get("COND_NAME")
        if out is None or name is None:
            return None
        if self.root is None:
            return name
        base = os.path.join(self.root, "cond-out")
        try:
            rel = os.path.relpath(os.path.dirname(out), base)
        except ValueError:
            return name
        if rel == ".":
            rel = ""
        return "//%s:%s" % (rel, name)

    def waitpid(self, pid, options):
        if pid == -1 or pid == 0:
            after = self.point("waitpid_any")
            try:
                for p in sorted(self.procs.values(), key=lambda p: p.pid):
                    if p.state == "zombie":
                        p.state = "reaped"
                        self.log("reap", pid=p.pid, task=p.task,
                                 by=("handler" if self._in_handler else "other"))
                        return p.pid, p.status
                # no virtual zombie: consult the real kernel too
                try:
                    rp, rs = _real_waitpid(pid, options | os.WNOHANG)
                except ChildProcessError:
                    rp, rs = None, None
                if rp:
                    return rp, rs
                if self.running():
                    if options & os.WNOHANG:
                        return 0, 0
                    # blocking wait for any child: make one exit
                    self.point("waitpid_block", blocking=True)
                    return self.waitpid(pid, options)
                if rp is None:
                    raise ChildProcessError(errno.ECHILD, os.strerror(errno.ECHILD))
                return 0, 0
            finally:
                if after:
                    self.deliver()
        p = self.procs[pid]
        caller = _caller_file(2)
        by = "popen" if caller == _SUBPROCESS_FILE else "other"
        after = self.point("waitpid", polled=pid)
        try:
            if p.state == "reaped":
                raise ChildProcessError(errno.ECHILD, os.strerror(errno.ECHILD))
            if p.state == "running" and not (options & os.WNOHANG):
                self._exit_proc(p)
            if p.state == "zombie":
                p.state = "reaped"
                self.log("reap", pid=p.pid, task=p.task,
                         by=("handler" if self._in_handler else by))
                return p.pid, p.status
            return 0, 0
        finally:
            if after:
                self.deliver()

    def read_blocking(self, fd, n):
        """Main thread is about to block in read(): Conductor waits for a child.

        Python-level handlers for earlier exits run before the call (eval breaker).  At the call itself one tape entry
        decides which children exit; in mode 1 the exit (and CPython's C-level handler, which only sets a flag) lands
        between the last eval-breaker check and the system call: the Python handler cannot run until read() returns,
        i.e. until a LATER signal interrupts it.  If nothing else is running, nothing will ever wake the main thread."""
        guard = 0
        while True:
            self.deliver()
            r, _, _ = _real_select([fd], [], [], 0)
            if r:
                return _real_read(fd, n)
            run = self.running()
            if not run:
                self._fatal("deadlock", "main thread blocked in read(); no running child")
            self.activity += 1
            entry = self._tape_next()
            mode, sel = entry & 1, entry >> 1
            chosen = [p for i, p in enumerate(run) if (sel >> i) & 1] or [run[sel % len(run)]]
            for p in chosen:
                self._exit_proc(p)
            if mode == 1:
                self.stats["exit_right_before_blocking_read"] = self.stats.get("exit_right_before_blocking_read", 0) + 1
                rest = self.running()
                if not rest:
                    self._fatal("deadlock", "a child exited right before the main thread entered the blocking read(): CPython's "
                                "C-level handler only set a flag, the Python SIGCHLD handler has not run, and no other child "
                                "is left whose exit could interrupt the read (lost wake-up)")
                # a later exit interrupts the read (EINTR); then all pending handlers run
                self._exit_proc(rest[self._tape_next() % len(rest)])
            guard += 1
            if guard > 10000:
                self._fatal("deadlock", "read() made no progress")

    def select(self, rlist, wlist, xlist, timeout):
        """select() in the main thread: a wait with (possibly) a timeout."""
        self.deliver()
        ready = _real_select(rlist, wlist, xlist, 0)
        if any(ready) or timeout == 0:
            return ready
        self.activity += 1
        run = self.running()
        if not run:
            if timeout is None:
                self._fatal("deadlock", "main thread blocked in select() without timeout; no running child")
            self._idle_selects += 1
            if self._idle_selects > 200:
                self._fatal("deadlock", "main thread keeps polling with select() although no child is running")
            return ready
        self._idle_selects = 0
        entry = self._tape_next()
        mode, sel = entry & 1, entry >> 1
        chosen = [p for i, p in enumerate(run) if (sel >> i) & 1]
        if not chosen and timeout is None:
            chosen = [run[sel % len(run)]]
        if not chosen:
            # nothing exits during this (finite) wait; make sure time passes eventually
            self._quiet_selects += 1
            if self._quiet_selects >= 3:
                chosen = [run[sel % len(run)]]
        if chosen:
            self._quiet_selects = 0
        for p in chosen:
            self._exit_proc(p)
        if mode == 1 and chosen:
            # exit landed right before the syscall: the handler runs only after select() returned
            self.stats["exit_right_before_blocking_read"] = self.stats.get("exit_right_before_blocking_read", 0) + 1
            if timeout is None and not self.running():
                self._fatal("deadlock", "lost wake-up: select() without timeout entered right after the last child's SIGCHLD was flagged")
            return ready
        self.deliver()
        return _real_select(rlist, wlist, xlist, 0)

    def _fatal(self, kind, detail):
        self.log("fatal", what=kind, detail=detail)
        if self.fatal is not None:
            self.fatal(kind, detail)
        raise HarnessError(kind + ": " + detail)

    def getpgid(self, pid):
        p = self.procs[pid]
        if p.state == "reaped":
            raise ProcessLookupError(errno.ESRCH, os.strerror(errno.ESRCH))
        return pid

    def killpg(self, pgid, sig):
        p = self.procs[pgid]
        if p.state == "reaped":
            raise ProcessLookupError(errno.ESRCH, os.strerror(errno.ESRCH))
        self.log("kill", pid=pgid, task=p.task, sig=int(sig), state=p.state)
        if sig in (signal.SIGTERM, signal.SIGKILL, signal.SIGINT) and p.state == "running":
            if self.term == "die" or sig == signal.SIGKILL:
                p.termed = True
                self._exit_proc(p)
                # SIGCHLD is delivered like any other exit, before the caller goes on
                self.deliver()

    def time(self):
        t = self.clock
        self.clock += self.clock_step
        return t

    def summary(self):
        return {
            "tape_used": self.tape_pos,
            "running_at_end": [p.pid for p in self.procs.values()
                               if p.state == "running" and not p.foreign],
            "unreaped_at_end": [p.pid for p in self.procs.values()
                                if p.state == "zombie" and not p.foreign],
            "stats": self.stats,
        }


def _caller_file(depth):
    try:
        return sys._getframe(depth + 1).f_code.co_filename
    except ValueError:
        return None


# ----------------------------------------------------------------------
# wrappers


def _w_fork_exec(*args):
    k = _ACTIVE
    if k is None or threading.current_thread() is not _MAIN_THREAD:
        return _real_fork_exec(*args)
    env_list = args[5]
    if env_list is None or not any(e.startswith(b"COND_NAME=") for e in env_list):
        return _real_fork_exec(*args)
    return k.fork_exec(args, args)


def _w_waitpid(pid, options):
    k = _ACTIVE
    if k is None or threading.current_thread() is not _MAIN_THREAD:
        return _real_waitpid(pid, options)
    if pid > 0 and not k.is_virtual(pid):
        return _real_waitpid(pid, options)
    return k.waitpid(pid, options)


def _w_read(fd, n):
    k = _ACTIVE
    if (k is None or threading.current_thread() is not _MAIN_THREAD
            or _caller_file(1) == _SUBPROCESS_FILE or k.in_point):
        return _real_read(fd, n)
    r, _, _ = _real_select([fd], [], [], 0)
    if r:
        return _real_read(fd, n)
    return k.read_blocking(fd, n)


def _w_select(rlist, wlist, xlist, timeout=None):
    k = _ACTIVE
    if (k is None or threading.current_thread() is not _MAIN_THREAD
            or _caller_file(1) in (_SUBPROCESS_FILE, __file__)):
        return _real_select(rlist, wlist, xlist, timeout)
    return k.select(rlist, wlist, xlist, timeout)


def _w_getpgid(pid):
    k = _ACTIVE
    if k is None or not k.is_virtual(pid):
        return _real_getpgid(pid)
    return k.getpgid(pid)


def _w_killpg(pgid, sig):
    k = _ACTIVE
    if k is None or not k.is_virtual(pgid):
        return _real_killpg(pgid, sig)
    return k.killpg(pgid, sig)


def _w_kill(pid, sig):
    k = _ACTIVE
    if k is None or not k.is_virtual(abs(pid)):
        return _real_kill(pid, sig)
    return k.killpg(abs(pid), sig)


def _w_time():
    k = _ACTIVE
    if k is None or k.clock is None:
        return _real_time()
    return k.time()


def install():
    """Install the dispatching wrappers.  Must run before `import conductor`."""
    global _INSTALLED
    if _INSTALLED:
        return
    if "conductor" in sys.modules:
        raise HarnessError("interposition must be installed before conductor is imported")
    d = subprocess.Popen._internal_poll.__defaults__
    if not (len(d) == 4 and d[1] is _real_waitpid):
        raise HarnessError("unexpected Popen._internal_poll signature: %r" % (d,))
    subprocess.Popen._internal_poll.__defaults__ = (d[0], _w_waitpid, d[2], d[3])
    subprocess._fork_exec = _w_fork_exec
    os.waitpid = _w_waitpid
    os.read = _w_read
    select.select = _w_select
    os.getpgid = _w_getpgid
    os.killpg = _w_killpg
    os.kill = _w_kill
    time.time = _w_time
    _INSTALLED = True


def activate(kernel):
    global _ACTIVE
    _ACTIVE = kernel


def deactivate():
    global _ACTIVE
    _ACTIVE = None
