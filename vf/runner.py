"""Check driver: `python -m vf.runner <ID> [--tier quick|thorough] [--replay file]`.

Exit 0: property held on everything explored.  Exit 1 + `VIOLATION property=<id>
replay=<path>`: counter-example saved.  Exit 2: harness error / inconclusive.
"""
import argparse
import hashlib
import importlib
import json
import os
import subprocess
import sys
import time
import traceback

VERIF = os.path.dirname(os.path.dirname(os.path.abspath(__file__)))
EVIDENCE_DIR = os.environ.get("VERIF_EVIDENCE_DIR") or os.path.join(VERIF, "evidence")
REPLAY_DIR = os.environ.get("VERIF_REPLAY_DIR") or os.path.join(VERIF, "replays")
REGRESSION_DIR = os.path.join(VERIF, "regressions")
KNOWN_FILE = os.path.join(VERIF, "KNOWN_FINDINGS.txt")
PY = sys.executable


class Outcome:
    """What run_case returns."""

    def __init__(self, violations=None, labels=None, nontrivial=False, summary=None):
        self.violations = violations or []  # [(signature, text)]
        self.labels = list(labels or [])
        self.nontrivial = nontrivial
        self.summary = summary


def shorten(x, limit=160):
    """Samples are for a reader: long strings are abbreviated (the full case is what gets hashed / replayed)."""
    if isinstance(x, str) and len(x) > limit:
        return "%s... <%d chars>" % (x[:limit // 2], len(x))
    if isinstance(x, (list, tuple)):
        return [shorten(y, limit) for y in x[:60]] + (["... <%d items>" % len(x)] if len(x) > 60 else [])
    if isinstance(x, dict):
        return {k: shorten(v, limit) for k, v in x.items()}
    return x


def case_hash(case):
    return hashlib.sha1(json.dumps(case, sort_keys=True, default=repr).encode()).hexdigest()[:14]


def load_known(prop_id):
    """-> {signature: text} for `open:` lines of this property."""
    known = {}
    if not os.path.exists(KNOWN_FILE):
        return known
    for ln in open(KNOWN_FILE, encoding="utf-8"):
        ln = ln.strip()
        if not ln.startswith("open:"):
            continue
        body = ln[len("open:"):].strip()
        parts = body.split(None, 2)
        if len(parts) < 2 or parts[0] != "property=%s" % prop_id or not parts[1].startswith("sig="):
            continue
        known[parts[1][4:]] = parts[2] if len(parts) > 2 else ""
    return known


def load_prop(prop_id):
    return importlib.import_module("vf.props.%s" % prop_id.lower())


# ----------------------------------------------------------------------
# worker


class _Stop(Exception):
    pass


def _guard_run_case(mod, isolate):
    """An exception that escapes from Conductor's own code while a check drives its API directly is a finding
    (`conductor_raised:<Type>`), not a harness error; anything raised by the harness itself still is one."""
    inner = mod.run_case

    def run_case(case):
        try:
            return inner(case)
        except (isolate.HarnessError, KeyboardInterrupt, SystemExit, MemoryError):
            raise
        except Exception as ex:  # noqa
            tb = ex.__traceback__
            frames = []
            while tb is not None:
                frames.append(tb.tb_frame.f_code.co_filename)
                tb = tb.tb_next
            src = os.path.join(isolate.SRC_REAL, "conductor")
            if frames and os.path.realpath(frames[-1]).startswith(src):
                text = "%s escaped from %s: %s" % (type(ex).__name__, os.path.relpath(os.path.realpath(frames[-1]), src), str(ex)[:200])
                return Outcome([("conductor_raised:" + type(ex).__name__, text)], ["conductor_raised"], False, {"exception": text})
            raise
    mod.run_case = run_case


def worker_main(prop_id, tier, w, nworkers, seed, outfile):
    from . import isolate
    isolate.setup_imports()
    import hypothesis
    from hypothesis import given, settings, HealthCheck, Phase

    mod = load_prop(prop_id)
    _guard_run_case(mod, isolate)
    known = load_known(prop_id)
    st = {
        "evaluations": 0, "nontrivial": set(), "labels": {}, "samples": [],
        "known_hits": {}, "violation": None, "replayed": 0, "enumerated": 0,
        "extra": {},
    }
    t0 = time.time()
    budget_s = float(os.environ.get("VERIF_BUDGET_S", "0") or 0)

    st["nontrivial_n"] = 0

    def account(case, oc):
        st["evaluations"] += getattr(oc, "evals", 1)
        st["nontrivial_n"] += getattr(oc, "nontrivial_n", 0)
        if getattr(oc, "label_counts", None):
            for lb, cnt in oc.label_counts.items():
                st["labels"][lb] = st["labels"].get(lb, 0) + cnt
        else:
            for lb in oc.labels:
                st["labels"][lb] = st["labels"].get(lb, 0) + 1
        if oc.nontrivial:
            h = case_hash(case)
            if h not in st["nontrivial"]:
                st["nontrivial"].add(h)
                if len(st["samples"]) < 3:
                    st["samples"].append({"case": shorten(case), "observed": shorten(oc.summary)})
        if hasattr(mod, "account"):
            mod.account(st["extra"], case, oc)

    collect = bool(os.environ.get("VERIF_COLLECT"))
    st["collected"] = {}

    def judge(case, oc):
        """Returns the list of violations not covered by an open known finding."""
        fresh = []
        for sig, text in oc.violations:
            if sig in known:
                st["known_hits"][sig] = st["known_hits"].get(sig, 0) + 1
            elif collect:
                # triage mode: bucket by signature, keep searching
                b = st["collected"].setdefault(sig, {"n": 0, "text": text, "case": case})
                b["n"] += 1
            else:
                fresh.append((sig, text))
        return fresh

    def save_violation(case, fresh):
        os.makedirs(os.path.join(REPLAY_DIR, prop_id), exist_ok=True)
        path = os.path.join(REPLAY_DIR, prop_id, "%s.json" % case_hash(case))
        with open(path, "w") as f:
            json.dump({"property": prop_id, "case": case,
                       "violations": [{"sig": s, "text": t} for s, t in fresh]},
                      f, indent=1, sort_keys=True, default=repr)
        st["violation"] = {"replay": os.path.relpath(path, VERIF),
                           "violations": [{"sig": s, "text": t} for s, t in fresh]}

    try:
        # 1. replay tier (worker 0): saved regressions, bypassing Hypothesis
        if w == 0:
            rdir = os.path.join(REGRESSION_DIR, prop_id)
            if os.path.isdir(rdir):
                for name in sorted(os.listdir(rdir)):
                    if not name.endswith(".json"):
                        continue
                    case = json.load(open(os.path.join(rdir, name)))["case"]
                    oc = mod.run_case(case)
                    account(case, oc)
                    st["replayed"] += 1
                    fresh = judge(case, oc)
                    if fresh:
                        save_violation(case, fresh)
                        raise _Stop()

        # 2. enumeration part
        if hasattr(mod, "enumerate_cases"):
            for i, case in enumerate(mod.enumerate_cases(tier, w, nworkers)):
                try:
                    oc = mod.run_case(case)
                except isolate.HarnessError as ex:
                    if "did not finish" not in str(ex):
                        raise
                    # inconclusive (time budget under load): never a violation; the driver reports INCONCLUSIVE
                    st["timeouts"] = st.get("timeouts", 0) + 1
                    st.setdefault("timeout_notes", []).append(str(ex)[:200])
                    if st["timeouts"] > 5:
                        break
                    continue
                account(case, oc)
                st["enumerated"] += 1
                fresh = judge(case, oc)
                if fresh:
                    if hasattr(mod, "minimize"):
                        case, fresh = mod.minimize(case, fresh, lambda c: judge(c, mod.run_case(c)))
                    save_violation(case, fresh)
                    raise _Stop()

        # 3. Hypothesis search
        n = mod.examples(tier)
        if n > 0:
            n = max(1, n // nworkers)
            state = {"failing": None, "calls_after_fail": 0}
            shrink_cap = 150 if tier == "quick" else 600
            shrink_s = 45 if tier == "quick" else 240

            @hypothesis.seed(seed * 1000 + w)
            @settings(max_examples=n, database=None, deadline=None, derandomize=False,
                      report_multiple_bugs=False,
                      suppress_health_check=list(HealthCheck),
                      phases=[Phase.generate, Phase.shrink])
            @given(mod.strategy(tier))
            def prop(case):
                if state.get("give_up"):
                    return
                if state["failing"] is not None:
                    state["calls_after_fail"] += 1
                    over = state["calls_after_fail"] > shrink_cap or time.time() - state["failed_at"] > shrink_s
                    if over and case != state["failing"][0]:
                        return
                elif budget_s and time.time() - t0 > budget_s:
                    return
                try:
                    oc = mod.run_case(case)
                except isolate.HarnessError as ex:
                    if "did not finish" not in str(ex):
                        raise
                    # inconclusive case (time budget): never a violation; keep searching
                    st["timeouts"] = st.get("timeouts", 0) + 1
                    st.setdefault("timeout_notes", []).append(str(ex)[:200])
                    try:
                        os.makedirs(os.path.join(REPLAY_DIR, prop_id), exist_ok=True)
                        with open(os.path.join(REPLAY_DIR, prop_id, "inconclusive-%s.json" % case_hash(case)), "w") as f:
                            json.dump({"property": prop_id, "case": case, "note": str(ex)[:300]}, f, default=repr)
                    except Exception:  # noqa
                        pass
                    if st["timeouts"] > 2:
                        state["give_up"] = True   # stop searching in this worker; the driver reports INCONCLUSIVE
                    return
                if state["failing"] is None:
                    account(case, oc)
                fresh = judge(case, oc)
                if fresh:
                    if state["failing"] is None:
                        state["failed_at"] = time.time()
                    state["failing"] = (case, fresh)
                    raise AssertionError(fresh[0][0])

            try:
                prop()
            except Exception:  # noqa
                # AssertionError: the (shrunk) failing case; Flaky, or an internal error of the shrinker (seen with
                # hypothesis 6.168: ValueError in intervalsets.index while shrinking a st.text draw): the violation that
                # was found stands, only its minimisation was cut short
                if state["failing"] is None:
                    raise
                case, fresh = state["failing"]
                save_violation(case, fresh)
    except _Stop:
        pass
    st["nontrivial"] = sorted(st["nontrivial"])
    st["wall_s"] = time.time() - t0
    with open(outfile, "w") as f:
        json.dump(st, f, default=repr)


# ----------------------------------------------------------------------
# driver


def run_check(prop_id, tier, seed, jobs):
    mod_spec = importlib.util.find_spec("vf.props.%s" % prop_id.lower())
    if mod_spec is None:
        print("unknown property %s" % prop_id)
        return 2
    t0 = time.time()
    os.makedirs(EVIDENCE_DIR, exist_ok=True)
    tmpdir = os.path.join(VERIF, ".work", "%s-%d" % (prop_id, os.getpid()))
    os.makedirs(tmpdir, exist_ok=True)
    procs = []
    env = dict(os.environ)
    env["PYTHONHASHSEED"] = "0"
    env["PYTHONPATH"] = VERIF + os.pathsep + env.get("PYTHONPATH", "")
    for w in range(jobs):
        out = os.path.join(tmpdir, "w%d.json" % w)
        log = open(os.path.join(tmpdir, "w%d.log" % w), "w")
        p = subprocess.Popen(
            [PY, "-m", "vf.runner", "--worker", prop_id, "--tier", tier, "--w", str(w),
             "--nworkers", str(jobs), "--seed", str(seed), "--out", out],
            cwd=VERIF, env=env, stdout=log, stderr=subprocess.STDOUT)
        procs.append((p, out, log))
    parts = []
    harness_error = None
    for w, (p, out, log) in enumerate(procs):
        rc = p.wait()
        log.close()
        if rc != 0 or not os.path.exists(out):
            harness_error = "worker %d exited %s:\n%s" % (
                w, rc, open(os.path.join(tmpdir, "w%d.log" % w)).read()[-4000:])
        else:
            parts.append(json.load(open(out)))
    if harness_error:
        print("HARNESS-ERROR property=%s" % prop_id)
        print(harness_error)
        return 2

    # merge
    # The prop module's static metadata is read without importing conductor.
    meta = load_prop_meta(prop_id)
    evaluations = sum(p["evaluations"] for p in parts)
    nontrivial = set()
    labels = {}
    samples = []
    known_hits = {}
    violation = None
    for p in parts:
        nontrivial.update(p["nontrivial"])
        for k, v in p["labels"].items():
            labels[k] = labels.get(k, 0) + v
        for s in p["samples"]:
            if len(samples) < 5:
                samples.append(s)
        for k, v in p["known_hits"].items():
            known_hits[k] = known_hits.get(k, 0) + v
        if p["violation"] and violation is None:
            violation = p["violation"]
    known = load_known(prop_id)
    missing = [lb for lb in meta.get("ESSENTIAL", []) if labels.get(lb, 0) == 0]
    coverage = {
        "evaluations": evaluations,
        "distinct_nontrivial": len(nontrivial) + sum(p.get("nontrivial_n", 0) for p in parts),
        "rule": meta["RULE"],
        "samples": samples,
        "labels": dict(sorted(labels.items())),
        "replayed_regressions": sum(p["replayed"] for p in parts),
        "enumerated": sum(p["enumerated"] for p in parts),
        "workers": jobs,
        "essential_labels_missing": missing,
        "known_findings_observed": known_hits,
    }
    if meta.get("EXHAUSTIVE"):
        coverage["exhaustive"] = bool(meta["EXHAUSTIVE"].get(tier)) and violation is None
        coverage["exhaustive_scope"] = meta["EXHAUSTIVE"].get(tier) or ""
    if meta.get("LEVEL") == "translation_validation":
        coverage["programs"] = evaluations
        coverage["disagreements_checked"] = sum(
            p.get("extra", {}).get("disagreements_checked", 0) for p in parts)
    extra = {}
    for p in parts:
        for k, v in p.get("extra", {}).items():
            if isinstance(v, (int, float)):
                extra[k] = extra.get(k, 0) + v
    if extra:
        coverage["extra"] = extra
    ev = {
        "property_id": prop_id,
        "tier": tier,
        "seed": seed,
        "level": meta["LEVEL"],
        "coverage": coverage,
        "assumptions": meta.get("ASSUMPTIONS", []),
        "wall_s": round(time.time() - t0, 2),
        "violations": 1 if violation else 0,
    }
    with open(os.path.join(EVIDENCE_DIR, "%s.json" % prop_id), "w") as f:
        json.dump(ev, f, indent=1, sort_keys=True, default=repr)
        f.write("\n")
    for p, out, log in procs:
        pass
    import shutil
    shutil.rmtree(tmpdir, ignore_errors=True)
    try:
        os.rmdir(os.path.join(VERIF, ".work"))
    except OSError:
        pass

    for sig, text in known.items():
        print("KNOWN-FINDING: property=%s %s (signature %s, observed %d times in this run)" % (
            prop_id, text, sig, known_hits.get(sig, 0)))
    print("property=%s tier=%s seed=%d evaluations=%d distinct_nontrivial=%d wall=%.1fs" % (
        prop_id, tier, seed, evaluations, coverage["distinct_nontrivial"], time.time() - t0))
    if missing:
        print("NOTE: labels never produced in this run: %s" % ", ".join(missing))
    collected = {}
    for p in parts:
        for sig, b in p.get("collected", {}).items():
            c = collected.setdefault(sig, {"n": 0, "text": b["text"], "case": b["case"]})
            c["n"] += b["n"]
    for sig, b in sorted(collected.items()):
        print("COLLECTED [%s] x%d: %s" % (sig, b["n"], b["text"]))
        os.makedirs(os.path.join(REPLAY_DIR, prop_id), exist_ok=True)
        with open(os.path.join(REPLAY_DIR, prop_id, "collected-%s.json" % "".join(ch if ch.isalnum() else "_" for ch in sig)[:60]), "w") as f:
            json.dump({"property": prop_id, "case": b["case"], "violations": [{"sig": sig, "text": b["text"]}]}, f, indent=1, default=repr)
    if collected and not violation:
        return 1
    if violation:
        for v in violation["violations"]:
            print("  violated: [%s] %s" % (v["sig"], v["text"]))
        print("VIOLATION property=%s replay=%s" % (prop_id, violation["replay"]))
        return 1
    timeouts = sum(p.get("timeouts", 0) for p in parts)
    if timeouts:
        print("INCONCLUSIVE property=%s: %d case(s) hit the per-invocation time budget: %s" % (
            prop_id, timeouts, [n for p in parts for n in p.get("timeout_notes", [])][:2]))
        return 2
    return 0


def load_prop_meta(prop_id):
    """Static metadata of a property module, obtained in a subprocess-free way:
    the modules keep metadata importable without conductor."""
    mod = load_prop(prop_id)
    return {k: getattr(mod, k) for k in ("LEVEL", "RULE", "ASSUMPTIONS", "ESSENTIAL", "EXHAUSTIVE")
            if hasattr(mod, k)}


def replay(prop_id, path):
    from . import isolate
    isolate.setup_imports()
    mod = load_prop(prop_id)
    known = load_known(prop_id)
    data = json.load(open(path))
    case = data["case"] if "case" in data else data
    oc = mod.run_case(case)
    fresh = [(s, t) for s, t in oc.violations if s not in known]
    for s, t in oc.violations:
        print("  %s[%s] %s" % ("(known) " if s in known else "", s, t))
    print(json.dumps(oc.summary, indent=1, default=repr)[:6000])
    if fresh:
        print("VIOLATION property=%s replay=%s" % (prop_id, path))
        return 1
    print("no violation on replay")
    return 0


def main(argv=None):
    ap = argparse.ArgumentParser()
    ap.add_argument("prop")
    ap.add_argument("--tier", default=os.environ.get("VERIF_TIER") or "quick",
                    choices=["quick", "thorough"])
    ap.add_argument("--replay")
    ap.add_argument("--worker", action="store_true")
    ap.add_argument("--w", type=int, default=0)
    ap.add_argument("--nworkers", type=int, default=1)
    ap.add_argument("--seed", type=int, default=None)
    ap.add_argument("--out")
    ap.add_argument("--jobs", type=int, default=int(os.environ.get("VERIF_JOBS", "16")))
    a = ap.parse_args(argv)
    seed = a.seed if a.seed is not None else int(os.environ.get("VERIF_SEED", "1") or 1)
    try:
        if a.worker:
            worker_main(a.prop, a.tier, a.w, a.nworkers, seed, a.out)
            return 0
        if a.replay:
            return replay(a.prop, a.replay)
        return run_check(a.prop, a.tier, seed, a.jobs)
    except SystemExit:
        raise
    except BaseException:
        traceback.print_exc()
        print("HARNESS-ERROR property=%s" % a.prop)
        return 2


if __name__ == "__main__":
    sys.exit(main())
