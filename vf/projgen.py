"""Project cases: JSON value -> files on disk (DESIGN §2.1)."""
import os
import shutil
import sqlite3
import tempfile

SCRATCH_BASE = "/dev/shm" if os.path.isdir("/dev/shm") and os.access("/dev/shm", os.W_OK) else tempfile.gettempdir()

KINDS = ("cmd", "exp", "group", "combine")
CTOR = {"cmd": "run_command", "exp": "run_experiment", "group": "group", "combine": "combine"}


def new_scratch(tag="vf"):
    return os.path.realpath(tempfile.mkdtemp(prefix="vf-%s-" % tag, dir=SCRATCH_BASE))


def rm(path):
    shutil.rmtree(path, ignore_errors=True)


def ident(case, i):
    t = case["tasks"][i]
    return "//%s:%s" % (case["pkgs"][t["pkg"]], t["name"])


def idents(case):
    return [ident(case, i) for i in range(len(case["tasks"]))]


def dep_str(case, i, dep):
    j, form = dep
    t = case["tasks"][j]
    if form == "rel" and case["tasks"][i]["pkg"] == t["pkg"]:
        return ":" + t["name"]
    return "//%s:%s" % (case["pkgs"][t["pkg"]], t["name"])


def render_task(case, i):
    t = case["tasks"][i]
    kind = t["kind"]
    parts = ["name=%r" % t["name"]]
    if kind in ("cmd", "exp"):
        parts.append("run=%r" % t.get("run", "./run.sh"))
        if t.get("par"):
            parts.append("parallelizable=True")
        if t.get("args"):
            parts.append("args=%r" % (list(t["args"]),))
        if t.get("opts"):
            parts.append("options={%s}" % ", ".join("%r: %r" % (k, v) for k, v in t["opts"]))
    deps = [dep_str(case, i, d) for d in t.get("deps", [])]
    if case.get("mutate_after"):
        # COND files are Python: the lists/dicts handed to a task constructor are the file's own objects and the
        # file goes on to modify them (a loop re-using one list).  The declaration is what was passed at the call.
        pre, post = [], []
        mparts = [x for x in parts if not x.startswith(("args=", "options="))]
        if kind in ("cmd", "exp") and t.get("args"):
            pre.append("_a%d = %r" % (i, list(t["args"])))
            mparts.append("args=_a%d" % i)
            post.append("_a%d.append('MUTATED-AFTER-THE-CALL')" % i)
        if kind in ("cmd", "exp") and t.get("opts"):
            pre.append("_o%d = {%s}" % (i, ", ".join("%r: %r" % (k, v) for k, v in t["opts"])))
            mparts.append("options=_o%d" % i)
            post.append("_o%d['mutated'] = True" % i)
        if deps:
            pre.append("_d%d = %r" % (i, deps))
            mparts.append("deps=_d%d" % i)
            post.append("_d%d.append('//:no_such_task_added_after_the_call')" % i)
        return "%s\n%s(%s)\n%s\n" % ("\n".join(pre), CTOR[kind], ", ".join(mparts), "\n".join(post))
    if deps or t.get("explicit_deps"):
        parts.append("deps=%r" % (deps,))
    return "%s(%s)\n" % (CTOR[kind], ", ".join(parts))


def write_project(root, case, config=None):
    """Write cond_config.toml and one COND per package."""
    os.makedirs(root, exist_ok=True)
    if config is None:
        config = "disable_git = true\n" if case.get("git", "disabled") == "disabled" else ""
    with open(os.path.join(root, "cond_config.toml"), "w") as f:
        f.write(config)
    by_pkg = {}
    for i, t in enumerate(case["tasks"]):
        by_pkg.setdefault(t["pkg"], []).append(i)
    for p, pkg in enumerate(case["pkgs"]):
        d = os.path.join(root, pkg) if pkg else root
        os.makedirs(d, exist_ok=True)
        if p in by_pkg or case.get("empty_cond_files", True):
            with open(os.path.join(d, "COND"), "w") as f:
                for i in by_pkg.get(p, []):
                    f.write(render_task(case, i))


# ----------------------------------------------------------------------
# version index seeding with plain sqlite3 (independent of Conductor's code)

_CREATE = """
  CREATE TABLE version_index (
    task_identifier TEXT NOT NULL,
    timestamp INTEGER NOT NULL,
    git_commit_hash TEXT,
    has_uncommitted_changes INTEGER NOT NULL,
    PRIMARY KEY (task_identifier, timestamp)
  )
"""


def index_path(root):
    return os.path.join(root, "cond-out", "version_index.sqlite")


def seed_rows(root, rows, make_dirs=True, files=None):
    """rows: [(task_id_str, ts, commit_or_None, dirty_bool)]"""
    out = os.path.join(root, "cond-out")
    os.makedirs(out, exist_ok=True)
    path = index_path(root)
    fresh = not os.path.exists(path)
    conn = sqlite3.connect(path)
    if fresh:
        conn.execute("PRAGMA user_version = 2")
        conn.execute(_CREATE)
    conn.executemany(
        "INSERT INTO version_index VALUES (?, ?, ?, ?)",
        [(t, int(ts), c, 1 if d else 0) for t, ts, c, d in rows],
    )
    conn.commit()
    conn.close()
    if make_dirs:
        for t, ts, c, d in rows:
            vd = version_dir(root, t, ts)
            os.makedirs(vd, exist_ok=True)
            for rel, text in (files or [("seeded.txt", "%s@%s" % (t, ts))]):
                p = os.path.join(vd, rel)
                os.makedirs(os.path.dirname(p), exist_ok=True)
                with open(p, "w") as f:
                    f.write(text)


def read_rows(root):
    path = index_path(root)
    if not os.path.exists(path):
        return []
    conn = sqlite3.connect(path)
    try:
        if conn.execute("PRAGMA user_version").fetchone()[0] == 1:
            rows = [(t, ts, None, 0) for t, ts in conn.execute(
                "SELECT task_identifier, timestamp FROM version_index ORDER BY task_identifier, timestamp").fetchall()]
        else:
            rows = conn.execute(
                "SELECT task_identifier, timestamp, git_commit_hash, has_uncommitted_changes "
                "FROM version_index ORDER BY task_identifier, timestamp").fetchall()
    except sqlite3.OperationalError as ex:
        if "no such table" not in str(ex):
            raise
        rows = []  # index file created but never initialised (killed/aborted in create_or_load)
    finally:
        conn.close()
    return [(r[0], r[1], r[2], bool(r[3])) for r in rows]


def split_ident(task_id):
    assert task_id.startswith("//")
    path, _, name = task_id[2:].rpartition(":")
    return path, name


def version_dir(root, task_id, ts=None):
    path, name = split_ident(task_id)
    leaf = name + ".task" + ("" if ts is None else ".%d" % ts)
    return os.path.join(root, "cond-out", path, leaf) if path else os.path.join(root, "cond-out", leaf)
