"""Graph cases (DESIGN §3 preamble): strategy, execution under the virtual kernel,
and extraction of observations from the event log."""
import os

from hypothesis import strategies as st

from . import model, projgen
from .isolate import run_cond

PKG_SETS = [
    [""],
    ["", "a"],
    ["", "a", "a/b"],
    ["a", "c-d"],
    ["", "a/b/_e", "c-d"],
    ["x/y", "x"],
]
NAME_BASES = ["t", "t", "t", "-", "_", "T-", "0", "a_b"]
PROC_KINDS = ("cmd", "exp")


def _mask(k):
    """Uniform bit mask over k positions (st.integers is biased towards small values)."""
    return st.sampled_from(range(1 << k)) if k <= 12 else st.integers(0, (1 << k) - 1)


@st.composite
def graph_case(draw, max_tasks=8, min_tasks=1, kinds=("cmd", "exp", "group", "combine"),
               kind_weights=(3, 3, 1, 1), p_par=0.75, p_seed_den=3,
               densities=("dense", "sparse", "sparse", "thin", "thin"), seeded=True, outcomes="none", max_bad=3,
               jobs=(None, 1, 2, 2, 3, 3, 4, 5), flags=("again",), tape_max=40, foreign=False,
               wide=False, tape_hi=15, rmout=False):
    pkgs = draw(st.sampled_from(PKG_SETS))
    sizes = [k for k in range(min_tasks, max_tasks + 1)]
    n = draw(st.sampled_from(sizes + [k for k in sizes if k >= 4] * 3))
    kind_pool = list(kinds) if kind_weights is None else [k for k, wt in zip(kinds, kind_weights) for _ in range(wt)]
    tasks = []
    for i in range(n):
        kind = draw(st.sampled_from(kind_pool))
        pkg = draw(st.integers(0, len(pkgs) - 1))
        base = draw(st.sampled_from(NAME_BASES))
        t = {"pkg": pkg, "name": "%s%d" % (base, i), "kind": kind, "deps": []}
        if kind in PROC_KINDS:
            t["par"] = draw(st.sampled_from([True] * int(p_par * 8) + [False] * (8 - int(p_par * 8))))
        tasks.append(t)
    density = draw(st.sampled_from(list(densities)))
    for i in range(n):
        later = list(range(i + 1, n))
        if not later:
            continue
        # each possible edge present with probability 1/2 (dense: diamonds and
        # shortcut edges are the common case), then an independent listing order
        mask = draw(_mask(len(later)))
        if density != "dense":
            mask &= draw(_mask(len(later)))
        if density == "thin":
            mask &= draw(_mask(len(later)))
        if i == 0 and density != "dense":
            # the target fans out so that several tasks are ready at once
            mask |= draw(_mask(len(later)))
        if i == 0 and mask == 0:
            mask = 1
        if wide and i == 0:
            mask |= draw(_mask(len(later)))
        deps = [j for b, j in enumerate(later) if (mask >> b) & 1]
        if len(deps) > 1:
            deps = list(draw(st.permutations(deps)))
        for j in deps:
            form = draw(st.sampled_from(["rel", "abs"]))
            tasks[i]["deps"].append([j, form])
    case = {"pkgs": pkgs, "tasks": tasks}
    case["target"] = draw(st.sampled_from([0] * (2 * n) + list(range(n))))
    if seeded:
        sd = {}
        for i, t in enumerate(tasks):
            if t["kind"] == "exp" and draw(st.sampled_from(range(p_seed_den))) == 0:
                sd[str(i)] = draw(st.lists(st.integers(100, 900), min_size=1, max_size=2, unique=True))
        case["seeded"] = sd
    else:
        case["seeded"] = {}
    case["jobs"] = draw(st.sampled_from(list(jobs)))
    fl = []
    for f in flags:
        if draw(st.integers(0, 3)) == 0:
            fl.append(f)
    case["flags"] = fl
    oc = {}
    if outcomes != "none":
        nbad = draw(st.integers(0, max_bad))
        cands = [i for i, t in enumerate(tasks) if t["kind"] in PROC_KINDS]
        for _ in range(nbad):
            if not cands:
                break
            i = draw(st.sampled_from(cands))
            kind = draw(st.sampled_from(["exit", "exit", "signal", "launch"] + (["rmout", "argsdir"] if rmout else [])))
            if kind == "argsdir":
                # exits 0, but leaves directories named args.json / options.json: the records cannot be written
                oc[str(i)] = {"rmout": False, "argsdir": True}
                tasks[i]["args"] = ["a", 1]
                tasks[i]["opts"] = [["k", "v"]]
            elif kind == "rmout":
                # exits 0, but has removed its own output directory: whether that counts as a success is not decided by
                # the statements (callers judge both readings); recording its arguments cannot work
                oc[str(i)] = {"rmout": True}
                tasks[i]["args"] = ["a", 1]
            elif kind == "exit":
                oc[str(i)] = {"exit": 10 + i}
            elif kind == "signal":
                oc[str(i)] = {"signal": [1, 2, 9, 15, 11][i % 5] + 0, "sigidx": i}
            else:
                # blocked: a regular file stands where the task's output directory has to be created (run_command only:
                # the directory name of an experiment is not known in advance)
                oc[str(i)] = {"launch": draw(st.sampled_from(["eagain", "enoent", "nul"] + (["blocked"] if tasks[i]["kind"] == "cmd" else [])))}
    for i, o in oc.items():
        if o.get("launch") == "nul":
            tasks[int(i)]["run"] = "tr '\x00' x < in.txt"
    if outcomes != "none":
        # a combine step can fail too: a regular file planted where one of its links must go
        for i, t in enumerate(tasks):
            if t["kind"] == "combine" and draw(st.sampled_from(range(5))) == 0:
                # (a dependency that removes its own output directory contributes no entry: nothing to conflict with)
                cands = [d[0] for d in t["deps"] if tasks[d[0]]["kind"] in PROC_KINDS and "rmout" not in oc.get(str(d[0]), {})]
                if cands:
                    oc[str(i)] = {"conflict": draw(st.sampled_from(cands))}
            elif t["kind"] == "combine" and draw(st.sampled_from(range(8))) == 0:
                oc[str(i)] = {"launch": "blocked"}    # the combine's own output directory cannot be created
    case["outcomes"] = oc
    tlen = draw(st.sampled_from([0, 4, 10, 20, 40, tape_max]))
    tlen = min(tlen, tape_max)
    case["tape"] = draw(st.lists(st.sampled_from([0] * (2 * tape_hi) + list(range(1, tape_hi + 1))),
                                 min_size=tlen, max_size=tlen))
    case["foreign"] = draw(st.integers(0, 2)) if foreign else 0
    # the same task name in different packages (catches state keyed by name instead of by identifier);
    # not with combine tasks, which reject equally named dependencies
    if len(pkgs) > 1 and not any(t["kind"] == "combine" for t in tasks) and draw(st.sampled_from(range(3))) == 0:
        for i in range(1, n):
            others = [j for j in range(i) if tasks[j]["pkg"] != tasks[i]["pkg"]
                      and not any(x != i and tasks[x]["pkg"] == tasks[i]["pkg"] and tasks[x]["name"] == tasks[j]["name"] for x in range(n))]
            if others and draw(st.booleans()):
                tasks[i]["name"] = tasks[draw(st.sampled_from(others))]["name"]
                case["same_names"] = True
    return case


def dedupe_names(case):
    """After a caller re-assigned packages: task names must be unique within a package."""
    used = set()
    for i, t in enumerate(case["tasks"]):
        if (t["pkg"], t["name"]) in used:
            t["name"] = "%s_%d" % (t["name"], i)
        used.add((t["pkg"], t["name"]))


@st.composite
def layered_case(draw, max_width=4, max_layers=3, jobs=(2, 3, 3, 4, 5), p_fail_den=4, tape_max=60, tape_hi=31,
                 flags=()):
    """Layered, mostly parallelizable graphs: root group -> layer 1 -> layer 2 ...;
    several tasks become ready at the same moment, some of them fail."""
    pkgs = draw(st.sampled_from(PKG_SETS))
    nl = draw(st.sampled_from(range(2, max_layers + 1)))
    widths = [draw(st.sampled_from(range(1, max_width + 1))) for _ in range(nl)]
    tasks = [{"pkg": 0, "name": "root0", "kind": draw(st.sampled_from(["group", "cmd", "combine"])), "deps": [], "par": True}]
    layers = []
    for w in widths:
        layer = []
        for _ in range(w):
            i = len(tasks)
            tasks.append({"pkg": draw(st.sampled_from(range(len(pkgs)))), "name": "t%d" % i,
                          "kind": draw(st.sampled_from(["cmd", "cmd", "exp"])), "deps": [],
                          "par": draw(st.sampled_from([True] * 7 + [False]))})
            layer.append(i)
        layers.append(layer)
    tasks[0]["deps"] = [[i, "abs"] for i in layers[0]]
    for k in range(len(layers) - 1):
        below = layers[k + 1]
        for i in layers[k]:
            mask = draw(_mask(len(below)))
            deps = [j for b, j in enumerate(below) if (mask >> b) & 1]
            if len(deps) > 1:
                deps = list(draw(st.permutations(deps)))
            tasks[i]["deps"] = [[j, draw(st.sampled_from(["rel", "abs"]))] for j in deps]
        # make sure every task of the lower layer is needed by someone
        for j in below:
            if not any(j in [d[0] for d in tasks[i]["deps"]] for i in layers[k]):
                tasks[draw(st.sampled_from(layers[k]))]["deps"].append([j, "abs"])
    case = {"pkgs": pkgs, "tasks": tasks, "target": 0, "seeded": {}}
    case["jobs"] = draw(st.sampled_from(list(jobs)))
    case["flags"] = [f for f in flags if draw(st.sampled_from([0, 0, 0, 1]))]
    oc = {}
    for i in range(1, len(tasks)):
        if draw(st.sampled_from(range(p_fail_den))) == 0:
            oc[str(i)] = draw(st.sampled_from([{"exit": 10 + i}, {"exit": 10 + i}, {"signal": 9}, {"launch": "eagain"}, {"launch": "enoent"}, {"launch": "nul"}]))
            if oc[str(i)].get("launch") == "nul":
                tasks[i]["run"] = "tr '\x00' x < in.txt"
    case["outcomes"] = oc
    tlen = draw(st.sampled_from([0, 10, 20, 40, tape_max]))
    case["tape"] = draw(st.lists(st.sampled_from([0] * (2 * tape_hi) + list(range(1, tape_hi + 1))),
                                 min_size=tlen, max_size=tlen))
    case["foreign"] = 0
    return case


@st.composite
def sandwich_case(draw, jobs=(None, 1, 2, 3, 3, 4), flags=(), p_fail_den=6, tape_max=40, tape_hi=31, max_top=4, max_mid=4, max_bot=3):
    """Three strata: executing tasks on top, a DAG of CACHED experiments in the middle (the region the planner prunes),
    executing tasks at the bottom that the top also reaches directly.  Every dependent of a cached task must still be
    ordered after (and skipped with) the bottom tasks hidden behind it; the middle region has several paths and
    shared nodes, and every dependency list is listed in a generated order."""
    pkgs = draw(st.sampled_from(PKG_SETS))
    nt = draw(st.sampled_from(range(1, max_top + 1)))
    nm = draw(st.sampled_from(range(1, max_mid + 1)))
    nb = draw(st.sampled_from(range(1, max_bot + 1)))
    tasks = []

    def add(kind, base):
        i = len(tasks)
        t = {"pkg": draw(st.sampled_from(range(len(pkgs)))), "name": "%s%d" % (base, i), "kind": kind, "deps": []}
        if kind in PROC_KINDS:
            t["par"] = draw(st.sampled_from([True, True, True, False]))
        tasks.append(t)
        return i
    top = [add(draw(st.sampled_from(["cmd", "cmd", "exp", "group", "combine"])), "a") for _ in range(nt)]
    mid = [add("exp", "m") for _ in range(nm)]
    bot = [add(draw(st.sampled_from(["cmd", "cmd", "exp"])), "r") for _ in range(nb)]

    def pick(cands, at_least_one=False, thin=False):
        if not cands:
            return []
        mask = draw(_mask(len(cands)))
        if thin:
            mask &= draw(_mask(len(cands)))
        out = [c for b, c in enumerate(cands) if (mask >> b) & 1]
        if at_least_one and not out:
            out = [draw(st.sampled_from(cands))]
        return out
    # most top tasks reach the bottom only THROUGH the cached region; separate "anchor" tasks (x -> r) make the bottom
    # tasks execute in this invocation
    for k, i in enumerate(top):
        deps = pick(top[k + 1:], thin=True) + pick(mid, at_least_one=True, thin=(nm > 2)) + pick(bot, thin=True)
        tasks[i]["deps"] = deps
    anchors = []
    for r in bot:
        if draw(st.sampled_from(range(4))) != 0:
            x = add("cmd", "x")
            tasks[x]["deps"] = [r]
            anchors.append(x)
    for k, i in enumerate(mid):
        tasks[i]["deps"] = pick(mid[k + 1:]) + pick(bot, at_least_one=(k == len(mid) - 1))
    for k, i in enumerate(bot):
        tasks[i]["deps"] = pick(bot[k + 1:])
    # a root that reaches everything on top (so that every stratum is in the closure) unless there is a single top task
    if nt + len(anchors) > 1:
        root = add(draw(st.sampled_from(["group", "cmd"])), "root")
        tasks[root]["deps"] = list(top) + anchors
        if draw(st.booleans()):
            tasks[root]["deps"] += pick(bot)
        target = root
    else:
        target = top[0]
    for t in tasks:
        deps = t["deps"]
        if t["kind"] == "combine":
            seen, uniq = set(), []
            for d in deps:
                if tasks[d]["name"] not in seen:
                    seen.add(tasks[d]["name"])
                    uniq.append(d)
            deps = uniq
        if len(deps) > 1:
            deps = list(draw(st.permutations(deps)))
        t["deps"] = [[d, draw(st.sampled_from(["rel", "abs"]))] for d in deps]
    case = {"pkgs": pkgs, "tasks": tasks, "target": target}
    case["seeded"] = {str(i): [draw(st.sampled_from([100, 200, 300]))] for i in mid}
    # now and then one of the middle experiments is NOT cached (an executing island inside the pruned region)
    if nm > 1 and draw(st.sampled_from(range(4))) == 0:
        del case["seeded"][str(draw(st.sampled_from(mid)))]
    case["jobs"] = draw(st.sampled_from(list(jobs)))
    case["flags"] = [f for f in flags if draw(st.sampled_from([0, 0, 0, 1]))]
    oc = {}
    for i in bot + top:
        if tasks[i]["kind"] in PROC_KINDS and draw(st.sampled_from(range(p_fail_den))) == 0:
            oc[str(i)] = draw(st.sampled_from([{"exit": 10 + i}, {"exit": 10 + i}, {"signal": 9}, {"launch": "eagain"}]))
    case["outcomes"] = oc
    tlen = draw(st.sampled_from([0, 10, 20, tape_max]))
    case["tape"] = draw(st.lists(st.sampled_from([0] * (2 * tape_hi) + list(range(1, tape_hi + 1))),
                                 min_size=tlen, max_size=tlen))
    case["foreign"] = 0
    case["sandwich"] = True
    return case


@st.composite
def fan_case(draw, sizes=(14, 20, 28)):
    """A wide fan of SEQUENTIAL experiments most of which fail, run under a tight limit on open file descriptors
    (`fdlimit`): whatever Conductor fails to release per finished task (pipes of the tee threads, log files) adds up until
    tasks that have nothing to do with the failures cannot be launched any more."""
    n = draw(st.sampled_from(list(sizes)))
    pkgs = draw(st.sampled_from(PKG_SETS))
    tasks = [{"pkg": 0, "name": "all0", "kind": "group", "deps": []}]
    oc = {}
    slot_mode = draw(st.sampled_from([False, False, True]))   # the same in parallel slots (outputs logged straight to files)
    for i in range(1, n + 1):
        tasks.append({"pkg": draw(st.sampled_from(range(len(pkgs)))), "name": "e%d" % i,
                      "kind": draw(st.sampled_from(["exp", "exp", "exp", "cmd"])), "deps": [], "par": slot_mode})
        if draw(st.sampled_from(range(8))) != 0:
            oc[str(i)] = draw(st.sampled_from([{"exit": 10 + i % 200}, {"exit": 10 + i % 200}, {"signal": 9}]))
    # a few healthy tasks that are listed (hence started) last
    for j in range(draw(st.sampled_from([1, 2, 3]))):
        tasks.append({"pkg": 0, "name": "ok%d" % j, "kind": "exp", "deps": [], "par": False})
    order = list(range(1, len(tasks)))
    tasks[0]["deps"] = [[i, "abs"] for i in order]
    return {"pkgs": pkgs, "tasks": tasks, "target": 0, "seeded": {},
            "jobs": draw(st.sampled_from([2, 3])) if slot_mode else draw(st.sampled_from([None, 1])),
            "flags": [], "outcomes": oc, "tape": [], "foreign": 0, "fdlimit": draw(st.sampled_from([24, 32, 40]))}


def fdlimit_hook(margin):
    """`pre` hook: the soft RLIMIT_NOFILE becomes what is open now plus `margin`."""
    def pre(res):
        import resource
        n = len(os.listdir("/proc/self/fd"))
        hard = resource.getrlimit(resource.RLIMIT_NOFILE)[1]
        resource.setrlimit(resource.RLIMIT_NOFILE, (n + margin, hard))
    return pre


def expected_code(outcome):
    """The number Conductor reports for a failed task (exit code, or signal number)."""
    if "signal" in outcome:
        return outcome["signal"]
    return outcome.get("exit", 0)


def kernel_spec(case, clock=1000.0):
    ids = projgen.idents(case)
    return {
        "tape": case.get("tape", []),
        "outcomes": {ids[int(i)]: o for i, o in case.get("outcomes", {}).items()},
        "foreign": case.get("foreign", 0),
        "clock": clock,
        "files": case.get("files") or {"*": {"ok": [["done", "done"]]}},
        "output": case.get("output", {}),
    }


def plant_conflicts(root, case):
    ids = projgen.idents(case)
    for i, o in case.get("outcomes", {}).items():
        if o.get("launch") == "blocked":
            d = projgen.version_dir(root, ids[int(i)])
            os.makedirs(os.path.dirname(d), exist_ok=True)
            if not os.path.lexists(d):
                with open(d, "w") as f:
                    f.write("a file where the task's output directory belongs")
        if "conflict" in o:
            d = projgen.version_dir(root, ids[int(i)])
            os.makedirs(d, exist_ok=True)
            p = os.path.join(d, case["tasks"][o["conflict"]]["name"])
            if not os.path.lexists(p):
                with open(p, "w") as f:
                    f.write("a user's file where the link should go")


def seed_case(root, case):
    ids = projgen.idents(case)
    rows = []
    for i, tss in case.get("seeded", {}).items():
        for ts in tss:
            rows.append((ids[int(i)], ts, None, False))
    if rows:
        projgen.seed_rows(root, rows)
    return rows


def argv_for(case):
    ids = projgen.idents(case)
    argv = ["run", ids[case["target"]]]
    if case.get("jobs") is not None:
        argv += ["-j", str(case["jobs"])]
    for f in case.get("flags", []):
        argv.append("--" + f.replace("_", "-"))
    return argv


def run_graph_case(case, inject=None, clock=1000.0, keep_root=False, env=None):
    root = projgen.new_scratch("g")
    try:
        projgen.write_project(root, case)
        rows_before = seed_case(root, case)
        plant_conflicts(root, case)
        res = run_cond(root, argv_for(case), kspec=kernel_spec(case, clock), inject=inject, env=env,
                       pre=fdlimit_hook(case["fdlimit"]) if case.get("fdlimit") else None)
        res["rows_before"] = rows_before
        res["rows_after"] = projgen.read_rows(root)
        res["root"] = root
        return res
    finally:
        if not keep_root:
            projgen.rm(root)


class Obs:
    """Observations extracted from an event log."""

    def __init__(self, case, res):
        self.case = case
        self.res = res
        self.ids = projgen.idents(case)
        self.idx_of = {s: i for i, s in enumerate(self.ids)}
        ev = res["events"]
        self.events = ev
        self.msgs = model.annotate(ev)  # (idx, kind, task, extra)
        self.spawns = {}    # task -> [event idx]
        self.procs = {}     # pid -> dict(task, spawn, exit, status, reap)
        self.launchfails = {}
        self.kills = []
        for i, e in enumerate(ev):
            k = e["e"]
            if k == "spawn":
                self.spawns.setdefault(e["task"], []).append(i)
                self.procs[e["pid"]] = {"task": e["task"], "spawn": i, "exit": None,
                                        "status": None, "reap": None, "ev": e}
            elif k == "exit" and not e.get("foreign"):
                p = self.procs.get(e["pid"])
                if p:
                    p["exit"] = i
                    p["status"] = e["status"]
            elif k == "reap":
                p = self.procs.get(e["pid"])
                if p:
                    p["reap"] = i
                    p["reap_by"] = e.get("by")
            elif k == "launchfail":
                self.launchfails.setdefault(e["task"], []).append(i)
            elif k == "kill":
                self.kills.append((i, e["pid"], e["sig"]))
        self.by_kind = {}
        for m in self.msgs:
            self.by_kind.setdefault(m[1], []).append(m)

    def lines(self, kind, task=None):
        return [m for m in self.by_kind.get(kind, []) if task is None or m[2] == task]

    def intervals(self, task):
        """Execution intervals of a task: process tasks (spawn, exit, status);
        sync tasks (running print, ok/failed print, 0/1)."""
        i = self.idx_of.get(task)
        kind = self.case["tasks"][i]["kind"] if i is not None else None
        out = []
        if kind in PROC_KINDS or kind is None:
            for p in self.procs.values():
                if p["task"] == task:
                    out.append((p["spawn"], p["exit"], p["status"]))
            for lf in self.launchfails.get(task, []):
                if self.events[lf].get("pid") is None:
                    out.append((lf, lf, -1))
            if not out and i is not None and self.case.get("outcomes", {}).get(str(i), {}).get("launch") == "blocked":
                # the output directory could not be created: the launch attempt ends before anything reaches the kernel;
                # Conductor's "failed" line marks it
                for m in self.lines("failed", task):
                    out.append((m[0], m[0], -1))
        else:
            runs = self.lines("running", task)
            ends = sorted(self.lines("ok", task) + self.lines("failed", task))
            for r in runs:
                end = next((e for e in ends if e[0] > r[0]), None)
                out.append((r[0], end[0] if end else None, 0 if end and end[1] == "ok" else 1))
        return sorted(out, key=lambda x: x[0])

    def executed(self):
        """Tasks with at least one execution (spawn / launch attempt / sync step)."""
        s = set()
        for t in self.ids:
            if self.intervals(t):
                s.add(t)
        return s

    def stdout(self):
        return self.res["stdout"].decode("utf-8", "replace")

    def stderr(self):
        return self.res["stderr"].decode("utf-8", "replace")

    def brief(self):
        """Compact trace for evidence samples."""
        out = []
        for i, e in enumerate(self.events):
            k = e["e"]
            if k == "spawn":
                out.append("spawn %s slot=%s" % (e["task"], e["env"].get("COND_SLOT")))
            elif k == "exit":
                out.append("exit %s st=%s" % (e["task"] or ("foreign%d" % e["pid"]), e["status"]))
            elif k == "reap":
                out.append("reap %s by=%s" % (e["task"] or "foreign", e.get("by")))
            elif k == "kill":
                out.append("kill %s sig=%s" % (e["task"], e["sig"]))
            elif k == "launchfail":
                out.append("launchfail %s" % e["task"])
            elif k == "fatal":
                out.append("FATAL %s" % e["what"])
        for m in self.msgs:
            pass
        return {"status": self.res["status"], "trace": out[:60],
                "argv": argv_for(self.case)}


def shape_labels(case):
    """Structural labels of the closure of the target."""
    labels = []
    t = case["target"]
    clo = model.closure(case, t)
    indeg = {}
    for x in clo:
        for d in model.dep_indices(case, x):
            indeg[d] = indeg.get(d, 0) + 1
    if any(v >= 2 for v in indeg.values()):
        labels.append("two_paths")
    # shortcut edge u->w together with u->v->...->w
    for u in clo:
        deps = model.dep_indices(case, u)
        for pos_w, w in enumerate(deps):
            for pos_v, v in enumerate(deps):
                if v != w and w in model.closure(case, v):
                    labels.append("shortcut_edge")
                    labels.append("shortcut_dep_listed_after_sibling" if pos_w > pos_v
                                  else "shortcut_dep_listed_before_sibling")
    names = [case["tasks"][x]["name"] for x in clo]
    if len(set(names)) < len(names):
        labels.append("same_name_in_two_packages")
    kinds = {case["tasks"][x]["kind"] for x in clo}
    if "group" in kinds or "combine" in kinds:
        labels.append("sync_op_in_closure")
    if len(clo) < len(case["tasks"]):
        labels.append("tasks_outside_closure")
    if len({case["tasks"][x]["pkg"] for x in clo}) > 1:
        labels.append("multi_pkg")
    return sorted(set(labels))


def judge_ambiguous(case, res, check):
    """Outcome kind `rmout` (the command exits 0 after removing its own output directory) may be reported as a success or
    as a failure: judge the run under every reading and keep the most favourable one."""
    amb = [i for i, o in case.get("outcomes", {}).items() if "rmout" in o]   # (also the kind argsdir, which carries the key)
    if not amb:
        return check(case, res)
    best = None
    for mask in range(1 << len(amb)):
        c = dict(case)
        c["outcomes"] = {i: o for i, o in case["outcomes"].items()
                         if i not in amb or (mask >> amb.index(i)) & 1}
        oc = check(c, res)
        if best is None or len(oc.violations) < len(best.violations):
            best = oc
        if not oc.violations:
            break
    best.labels = list(best.labels) + ["command_removed_its_output_directory"]
    return best
