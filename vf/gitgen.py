"""Abstract commit DAG -> real git repository, plumbing only (DESIGN §2.6)."""
import os
import subprocess

_ENV = {
    "GIT_CONFIG_GLOBAL": "/dev/null", "GIT_CONFIG_NOSYSTEM": "1", "GIT_CONFIG_SYSTEM": "/dev/null",
    "GIT_AUTHOR_NAME": "vf", "GIT_AUTHOR_EMAIL": "vf@example.invalid",
    "GIT_COMMITTER_NAME": "vf", "GIT_COMMITTER_EMAIL": "vf@example.invalid",
    "HOME": "/nonexistent", "PATH": os.environ.get("PATH", "/usr/bin:/bin"), "LC_ALL": "C",
}


def git(root, *args, date=None, stdin=None):
    env = dict(_ENV)
    if date is not None:
        env["GIT_AUTHOR_DATE"] = env["GIT_COMMITTER_DATE"] = "%d +0000" % date
    p = subprocess.run(["git", "-c", "safe.directory=*"] + list(args), cwd=root, env=env, input=stdin,
                       capture_output=True, text=True)
    if p.returncode != 0:
        raise RuntimeError("git %s failed: %s" % (" ".join(args), p.stderr))
    return p.stdout.strip()


def build(root, commits, head=None, detached=False, refs=None, tags=None, atags=None):
    """commits: list of parent-index lists (commit i may only name parents < i).
    Returns list of hashes.  head=None => repository without commits."""
    git(root, "init", "-q", "-b", "main")
    hashes = []
    if commits:
        tree = git(root, "mktree", stdin="")
        for i, parents in enumerate(commits):
            args = ["commit-tree", tree, "-m", "c%d" % i]
            for p in parents:
                args += ["-p", hashes[p]]
            hashes.append(git(root, *args, date=1600000000 + i * 60))
    if head is not None:
        if detached:
            git(root, "update-ref", "--no-deref", "HEAD", hashes[head])
        else:
            git(root, "update-ref", "refs/heads/main", hashes[head])
    for name, idx in (refs or {}).items():
        git(root, "update-ref", "refs/heads/" + name, hashes[idx])
    for name, idx in (tags or {}).items():
        git(root, "update-ref", "refs/tags/" + name, hashes[idx])
    for name, idx in (atags or {}).items():
        # an annotated tag: the ref points at a tag object, not at the commit
        git(root, "tag", "-a", name, "-m", "annotated", hashes[idx], date=1600000000)
    return hashes


def reach(commits, i):
    """Reflexive ancestor set of commit i."""
    seen, stack = set(), [i]
    while stack:
        x = stack.pop()
        if x in seen:
            continue
        seen.add(x)
        stack.extend(commits[x])
    return seen
