"""Reference models (DESIGN §2.2).  Pure Python over case JSON; written from the
documentation; shares no code with Conductor."""
import re

ANSI = re.compile(r"\x1b\[[0-9;]*m")


def dep_indices(case, i):
    return [d[0] for d in case["tasks"][i].get("deps", [])]


def closure(case, t):
    seen = []
    stack = [t]
    s = set()
    while stack:
        x = stack.pop()
        if x in s:
            continue
        s.add(x)
        seen.append(x)
        stack.extend(dep_indices(case, x))
    return s


def transdeps(case, t):
    return closure(case, t) - {t} if t not in _reach_strict(case, t) else closure(case, t)


def _reach_strict(case, t):
    s = set()
    stack = list(dep_indices(case, t))
    while stack:
        x = stack.pop()
        if x in s:
            continue
        s.add(x)
        stack.extend(dep_indices(case, x))
    return s


def needed(case, t, cached, again=False):
    """Tasks that must execute: DFS from t that does not enter (nor include) an
    experiment with a reusable cached version.  `cached` = set of task indices
    (experiments) whose cached version is reusable under the flags."""
    out = set()
    hidden_roots = set()
    stack = [t]
    while stack:
        x = stack.pop()
        if x in out or x in hidden_roots:
            continue
        if not again and x in cached and case["tasks"][x]["kind"] == "exp":
            hidden_roots.add(x)
            continue
        out.add(x)
        stack.extend(dep_indices(case, x))
    return out, hidden_roots


def topo(case, nodes):
    """Dependencies first."""
    order = []
    seen = set()

    def visit(x):
        if x in seen:
            return
        seen.add(x)
        for d in dep_indices(case, x):
            if d in nodes:
                visit(d)
        order.append(x)

    for n in sorted(nodes):
        visit(n)
    return order


def outcome_fixed_point(case, need, bad):
    """need: set of needed tasks; bad: set of tasks whose own execution fails.
    Returns (started, succeeded, failed, skipped)."""
    started, succeeded, failed, skipped = set(), set(), set(), set()
    # dependencies first over the WHOLE graph (two needed tasks may be connected only through a cached one)
    order = [x for x in topo(case, set(range(len(case["tasks"])))) if x in need]
    for x in order:
        # every TRANSITIVE dependency that is executed in this invocation counts, also one that is only reachable
        # through a cached (pruned) experiment (cli/run.md: "all dependencies (and their dependencies, and so on)")
        deps = [d for d in closure(case, x) if d != x and d in need]
        if all(d in succeeded for d in deps):
            started.add(x)
            if x in bad:
                failed.add(x)
            else:
                succeeded.add(x)
        else:
            skipped.add(x)
    return started, succeeded, failed, skipped


# ----------------------------------------------------------------------
# stdout parsing

_RUN = re.compile(r"^✱ Running (\S+)\.\.\. \((\d+)/(\d+)\)$")
_SKIP = re.compile(r"^✱ Skipping (\S+)\. \((\d+)/(\d+)\)$")
_OK = re.compile(r"^✓ (\S+) completed successfully\.$")
_FAIL = re.compile(r"^✘ (\S+) failed\.$")
_CACHED = re.compile(r"^✓ Using cached results for (\S+)\.$")


def classify_line(text):
    """text: one stdout write (ANSI stripped).  Returns (kind, task, extra) or None."""
    m = _RUN.match(text)
    if m:
        return ("running", m.group(1), (int(m.group(2)), int(m.group(3))))
    m = _SKIP.match(text)
    if m:
        return ("skipping", m.group(1), (int(m.group(2)), int(m.group(3))))
    m = _OK.match(text)
    if m:
        return ("ok", m.group(1), None)
    m = _FAIL.match(text)
    if m:
        return ("failed", m.group(1), None)
    m = _CACHED.match(text)
    if m:
        return ("cached", m.group(1), None)
    return None


def annotate(events):
    """Add parsed 'msg' to stdout print events in place; returns list of
    (index, kind, task, extra) for Conductor's own progress lines."""
    msgs = []
    for idx, ev in enumerate(events):
        if ev["e"] != "out" or ev["s"] != "o":
            continue
        try:
            text = ANSI.sub("", ev["b"].decode("utf-8"))
        except UnicodeDecodeError:
            continue
        if "\n" in text.strip("\n"):
            continue
        c = classify_line(text.rstrip("\n"))
        if c:
            msgs.append((idx,) + c)
    return msgs


def parse_report(stdout_text):
    """Parse the final failure report. Returns dict(failed=[(id, message)], skipped=[id], done=bool, failed_banner=bool)."""
    text = ANSI.sub("", stdout_text)
    lines = text.split("\n")
    res = {"failed": [], "skipped": [], "done": False, "failed_banner": False, "aborted": False}
    i = 0
    mode = None
    while i < len(lines):
        ln = lines[i]
        if ln.startswith("✨ Done!"):
            res["done"] = True
        elif ln.startswith("🔴 Task failed."):
            res["failed_banner"] = True
        elif ln.startswith("🔸 Task aborted."):
            res["aborted"] = True
        elif ln == "Failed task(s):":
            mode = "failed"
        elif ln.startswith("Skipped task(s)"):
            mode = "skipped"
        elif mode == "failed" and ln.startswith("  //"):
            msg = lines[i + 1].strip() if i + 1 < len(lines) and lines[i + 1].startswith("    ") else ""
            res["failed"].append((ln.strip(), msg))
            if msg:
                i += 1
        elif mode == "skipped" and ln.startswith("  //"):
            res["skipped"].append(ln.strip())
        elif ln == "" and mode is not None:
            mode = None
        i += 1
    return res


# ----------------------------------------------------------------------
# identifier grammar: hand-written recogniser, no regular expressions

_ALPHA = set("abcdefghijklmnopqrstuvwxyzABCDEFGHIJKLMNOPQRSTUVWXYZ0123456789_-")


def accepts_name(s):
    return isinstance(s, str) and len(s) > 0 and all(ch in _ALPHA for ch in s)


def parse_identifier(s, require_prefix=True):
    """Returns (segments tuple, name, trailing_slash_flag) or None."""
    if not isinstance(s, str):
        return None
    rest = s
    had_prefix = False
    if rest.startswith("//"):
        had_prefix = True
        rest = rest[2:]
    if require_prefix and not had_prefix:
        return None
    if rest.count(":") != 1:
        return None
    path, name = rest.split(":")
    if not accepts_name(name):
        return None
    trailing = False
    if path == "":
        segs = ()
    else:
        if path.endswith("/"):
            trailing = True
            path = path[:-1]
        segs = tuple(path.split("/"))
        if not all(accepts_name(x) for x in segs):
            return None
    return segs, name, trailing


def parse_relative(s):
    if not isinstance(s, str) or not s.startswith(":"):
        return None
    return s[1:] if accepts_name(s[1:]) else None
