"""Layer B for the scheduling properties: graph cases executed with REAL task processes (DESIGN §9.8).

The virtual kernel (vf/kernel.py) decides C01-C04, C09 and C16 under a schedule model.  This layer gives the same
oracles an independent look at the real thing: the tasks are real `bash` children that sleep for generated delays, the
kernel is Linux, SIGCHLD / SIGINT / SIGTERM are real asynchronous signals.  No clock is used as an oracle.  Order is
taken from ONE append-only log file (O_APPEND writes are serialised by the kernel):

    P <hex>            a write to Conductor's stdout (made when Conductor prints, by the capture object of the child)
    S <pid> <name> <slot|-> <cwd>    written by a task as its first action
    E <pid> <name>     written by a task as its last action before it exits
    T <pid> <name>     written by a task's SIGTERM trap (tasks that install one)
    X                  written by the harness when `cond` has returned

A task process certainly exists between its S and its E line, so every violation derived from the log is real:
"E(u) precedes S(t)" must hold when t depends on u (a correct Conductor starts t after it reaped u, which is after u
wrote E); two S lines without an E in between mean two processes existed at once; an E after X means the task
outlived `cond`.  The converse direction is lenient (a process lives a little longer than its E line).
What the log can NOT say is how a task's S line relates to a LATER print of Conductor: the task writes S some time after
Conductor forked it, so "S after print p" does not mean "started after p" (spawn events carry "late": True and the
checks compare prints with Conductor's own "Running" line instead).

The log is turned into the event-list format of the virtual kernel so that the property modules' `check` functions
judge both layers with the same code.
"""
import os
import pickle
import select
import signal
import stat
import time

from hypothesis import strategies as st

from . import graph, isolate, projgen

RT_SH = r"""#!/bin/bash
# real task body (vf/reallayer.py)
spec="./.vfspec.$COND_NAME"
delay=0; code=0; sig=; trapterm=
[ -f "$spec" ] && . "$spec"
if [ -n "$trapterm" ]; then
  trap 'printf "T %s %s\n" "$$" "$COND_NAME" >> "$VF_LOG"; exit 143' TERM
fi
printf 'S %s %s %s %s\n' "$$" "$COND_NAME" "${COND_SLOT--}" "$PWD" >> "$VF_LOG"
if [ "$delay" != 0 ]; then sleep "$delay"; fi
echo done > "$COND_OUT/done"
printf 'E %s %s\n' "$$" "$COND_NAME" >> "$VF_LOG"
if [ -n "$sig" ]; then kill -"$sig" $$; fi
exit "$code"
"""

DELAYS = ["0", "0", "0.003", "0.01", "0.03", "0.08"]
LONG_DELAYS = ["0.2", "0.4", "0.8", "1.5"]


@st.composite
def real_case(draw, max_tasks=7, flags=(), outcomes="some", jobs=(None, 1, 2, 2, 3, 3, 4, 5), signal_mode=False,
              layered=False):
    """A graph case for the real layer: exit/signal outcomes only, per-task delays, optionally a signal plan."""
    if layered:
        case = draw(graph.layered_case(flags=flags, p_fail_den=5 if outcomes != "none" else 10 ** 6, jobs=(2, 3, 3, 4, 5)))
    else:
        case = draw(graph.graph_case(max_tasks=max_tasks, outcomes=outcomes, max_bad=2, kind_weights=(3, 3, 1, 1),
                                     p_par=0.75, p_seed_den=5, jobs=jobs, flags=flags, tape_max=0))
    oc = {}
    for i, o in case.get("outcomes", {}).items():
        if "launch" in o:
            case["tasks"][int(i)].pop("run", None)
            if case["tasks"][int(i)]["kind"] not in graph.PROC_KINDS:
                continue    # (a combine whose output directory is blocked: not in this layer)
            o = {"exit": 10 + int(i)}
        if "rmout" in o:
            continue        # (awkward exits of virtual children: not in this layer)
        oc[i] = o
    case["outcomes"] = {} if signal_mode else oc
    case["tape"] = []
    case["foreign"] = 0
    case["layer"] = "real"
    n = len(case["tasks"])
    # signal mode: tasks mostly outlast the signal delay (they die from Conductor's SIGTERM anyway, so cases stay short)
    pool = (LONG_DELAYS + LONG_DELAYS + ["0.01", "0.05"]) if signal_mode else DELAYS
    case["delays"] = [draw(st.sampled_from(pool)) for _ in range(n)]
    case["trapterm"] = [draw(st.sampled_from([True, True, False])) for _ in range(n)]
    if signal_mode:
        case["sigplan"] = {"sig": draw(st.sampled_from([int(signal.SIGINT), int(signal.SIGTERM)])),
                           "after_lines": draw(st.sampled_from([1, 1, 2, 3, 4, 6, 9, 13])),
                           "delay_ms": draw(st.sampled_from([0, 0, 1, 2, 5, 10, 30, 100])),
                           # an impatient second signal (the other one of SIGINT/SIGTERM) this many microseconds later
                           "second_us": draw(st.sampled_from([None, None, 100, 200, 300, 500, 1000, 5000]))}
    return case


def _write(root, case):
    projgen.write_project(root, case)
    ids = projgen.idents(case)
    for p, pkg in enumerate(case["pkgs"]):
        d = os.path.join(root, pkg) if pkg else root
        path = os.path.join(d, "run.sh")
        with open(path, "w") as f:
            f.write(RT_SH)
        os.chmod(path, os.stat(path).st_mode | stat.S_IXUSR | stat.S_IXGRP | stat.S_IXOTH)
    for i, t in enumerate(case["tasks"]):
        if t["kind"] not in graph.PROC_KINDS:
            continue
        d = os.path.join(root, case["pkgs"][t["pkg"]]) if case["pkgs"][t["pkg"]] else root
        o = case.get("outcomes", {}).get(str(i), {})
        with open(os.path.join(d, ".vfspec.%s" % t["name"]), "w") as f:
            f.write("delay=%s\ncode=%d\nsig=%s\ntrapterm=%s\n" % (
                case["delays"][i], o.get("exit", 0), o.get("signal", ""), "1" if case["trapterm"][i] and "signal" not in o else ""))
    return ids


def _alive(pid):
    try:
        os.kill(pid, 0)
        return True
    except ProcessLookupError:
        return False
    except PermissionError:
        return True


def _read_log(log):
    try:
        with open(log, "rb") as f:
            data = f.read()
    except FileNotFoundError:
        return []
    lines = data.split(b"\n")
    return [ln for ln in lines[:-1]]   # the last element is "" or an incomplete line


def _children_of(pid):
    out = []
    try:
        for tid in os.listdir("/proc/%d/task" % pid):
            with open("/proc/%d/task/%s/children" % (pid, tid)) as f:
                out += [int(x) for x in f.read().split()]
    except OSError:
        pass
    return out


def _drive(root, argv, env, log, sigplan, timeout):
    """Fork a child that runs `cond <argv>` in-process; optionally send it a real signal; return (res, info)."""
    def pre(res):
        import sys
        fd = os.open(log, os.O_WRONLY | os.O_APPEND | os.O_CREAT, 0o644)
        out = sys.stdout
        orig = out._add

        def _add(b):
            os.write(fd, b"P " + bytes(b).hex().encode() + b"\n")
            orig(b)
        out._add = _add

    def after_main():
        # a real signal that arrives once Conductor's main() is over must not hit the harness code that reports the result
        signal.pthread_sigmask(signal.SIG_BLOCK, {signal.SIGINT, signal.SIGTERM})

    r, w = os.pipe()
    pid = os.fork()
    if pid == 0:
        os.close(r)
        isolate._child(w, root, argv, None, None, None, env, pre, None, True, after_main if sigplan else None)
    os.close(w)
    info = {"signal_sent": False, "pid": pid}
    chunks = []
    deadline = time.monotonic() + timeout
    fire_at = None
    try:
        while True:
            now = time.monotonic()
            if now >= deadline:
                # hang verdict without a timing oracle: every task process is gone, `cond` has no child left, and it
                # still has not returned `timeout` seconds after it was started
                lines = _read_log(log)
                pids = [int(ln.split()[1]) for ln in lines if ln[:2] == b"S "]
                if not any(_alive(p) for p in pids) and not _children_of(pid):
                    info["hang"] = True
                    return {"status": "deadlock", "detail": "real processes: cond run still has not returned %ds after it "
                            "was started although all %d task processes it started have exited and it has no child left"
                            % (timeout, len(pids)), "events": [], "stdout": b"", "stderr": b""}, info
                raise isolate.HarnessError("cond %r did not finish within %ss (inconclusive)" % (argv, timeout))
            wait = 0.002 if (sigplan and not info["signal_sent"]) else 0.25
            rr, _, _ = select.select([r], [], [], wait)
            if rr:
                b = os.read(r, 1 << 20)
                if not b:
                    break
                chunks.append(b)
                continue
            if sigplan and not info["signal_sent"]:
                if fire_at is None:
                    if len(_read_log(log)) >= sigplan["after_lines"]:
                        fire_at = time.monotonic() + sigplan["delay_ms"] / 1000.0
                if fire_at is not None and time.monotonic() >= fire_at:
                    at = _read_log(log)
                    info["lines_at_signal"] = len(at)
                    ended = {ln.split()[1] for ln in at if ln[:2] in (b"E ", b"T ")}
                    info["running_at_signal"] = sorted(int(ln.split()[1]) for ln in at if ln[:2] == b"S " and ln.split()[1] not in ended)
                    os.kill(pid, sigplan["sig"])
                    info["signal_sent"] = True
                    if sigplan.get("second_us"):
                        t_end = time.monotonic() + sigplan["second_us"] / 1e6
                        while time.monotonic() < t_end:
                            pass
                        try:
                            os.kill(pid, int(signal.SIGTERM) if sigplan["sig"] == int(signal.SIGINT) else int(signal.SIGINT))
                            info["second_signal_sent"] = True
                        except ProcessLookupError:
                            pass
    finally:
        os.close(r)
        try:
            os.kill(pid, signal.SIGKILL)
        except OSError:
            pass
        os.waitpid(pid, 0)
    data = b"".join(chunks)
    if not data:
        if info["signal_sent"]:
            # the signal met the default disposition (no Conductor handler installed): the process died silently
            return {"status": 128 + sigplan["sig"], "events": [], "stdout": b"", "stderr": b"", "died_by_default": True}, info
        raise isolate.HarnessError("child for cond %r sent no result" % (argv,))
    res = pickle.loads(data)
    if res.get("status") == "harness_error":
        raise isolate.HarnessError("harness error in child: " + res.get("detail", ""))
    return res, info


def run_real(case, timeout=None):
    """Run the case with real task processes; returns a result dict in the virtual kernel's format."""
    base = projgen.new_scratch("real")
    root = os.path.join(base, "proj")
    log = os.path.join(base, "log")
    timeout = timeout or int(os.environ.get("VERIF_REAL_TIMEOUT", "60"))
    try:
        ids = _write(root, case)
        rows_before = graph.seed_case(root, case)
        graph.plant_conflicts(root, case)
        open(log, "w").close()
        env = {"VF_LOG": log, "COND_SLOT": None}
        res, info = _drive(root, graph.argv_for(case), env, log, case.get("sigplan"), timeout)
        with open(log, "ab") as f:
            f.write(b"X\n")
        # let every task process finish (or die from its SIGTERM): bounded by the longest generated delay
        pids = [int(ln.split()[1]) for ln in _read_log(log) if ln[:2] == b"S "]
        limit = time.monotonic() + 15
        while any(_alive(p) for p in pids):
            if time.monotonic() > limit:
                for p in pids:
                    try:
                        os.killpg(p, signal.SIGKILL)
                    except OSError:
                        pass
                raise isolate.HarnessError("task processes did not go away within 15 s (inconclusive)")
            time.sleep(0.005)
        lines = _read_log(log)
        res["events"] = _events(case, ids, root, lines)
        res["real"] = info
        stats = res["events_stats"] = _stats(res["events"])
        res["kernel"] = {"stats": stats, "running_at_end": stats["after_return"]}
        res["rows_before"] = rows_before
        res["rows_after"] = projgen.read_rows(root)
        res["root"] = root
        return res
    finally:
        projgen.rm(base)


def _events(case, ids, root, lines):
    """Log lines -> events in the kernel's format (spawn / exit / kill / out / returned)."""
    ev = []
    by_key = {}
    for i, t in enumerate(case["tasks"]):
        pkg = case["pkgs"][t["pkg"]]
        by_key[(os.path.join(root, pkg) if pkg else root, t["name"])] = i
    task_of_pid = {}
    for ln in lines:
        parts = ln.split(b" ")
        k = parts[0]
        if k == b"P":
            ev.append({"e": "out", "s": "o", "b": bytes.fromhex(parts[1].decode())})
        elif k == b"S":
            pid, name, slot, cwd = int(parts[1]), parts[2].decode(), parts[3].decode(), b" ".join(parts[4:]).decode()
            i = by_key.get((cwd, name))
            task = ids[i] if i is not None else "<unknown task %s in %s>" % (name, cwd)
            task_of_pid[pid] = (task, i)
            ev.append({"e": "spawn", "pid": pid, "task": task, "env": {} if slot == "-" else {"COND_SLOT": slot},
                       "cwd": cwd, "late": True})
        elif k == b"E":
            pid = int(parts[1])
            task, i = task_of_pid.get(pid, (None, None))
            o = case.get("outcomes", {}).get(str(i), {}) if i is not None else {}
            status = -o["signal"] if "signal" in o else o.get("exit", 0)
            ev.append({"e": "exit", "pid": pid, "task": task, "status": status})
        elif k == b"T":
            pid = int(parts[1])
            task, i = task_of_pid.get(pid, (None, None))
            ev.append({"e": "kill", "pid": pid, "task": task, "sig": int(signal.SIGTERM)})
            ev.append({"e": "exit", "pid": pid, "task": task, "status": 143, "terminated": True})
        elif k == b"X":
            ev.append({"e": "returned"})
    # a task with S but neither E nor T died before it could say anything: only Conductor's SIGTERM does that here
    seen_end = {e["pid"] for e in ev if e["e"] == "exit"}
    for e in list(ev):
        if e["e"] == "spawn" and e["pid"] not in seen_end:
            ev.append({"e": "kill", "pid": e["pid"], "task": e["task"], "sig": int(signal.SIGTERM), "inferred": True})
            ev.append({"e": "exit", "pid": e["pid"], "task": e["task"], "status": -15, "terminated": True, "inferred": True})
    return ev


def _stats(ev):
    running = set()
    mx = 0
    returned = False
    after = []
    for e in ev:
        if e["e"] == "spawn":
            running.add(e["pid"])
            mx = max(mx, len(running))
            if returned:
                after.append(e["pid"])
        elif e["e"] == "exit":
            running.discard(e["pid"])
            if returned and not e.get("terminated"):
                after.append(e["pid"])   # finished by itself after cond had returned: it was left running
        elif e["e"] == "returned":
            returned = True
    return {"max_running": mx, "after_return": sorted(set(after))}


def mixed(virtual, real, share=16):
    """One case in `share` comes from the real layer.  VERIF_LAYER=real: all of them; VERIF_LAYER=virtual: none."""
    mode = os.environ.get("VERIF_LAYER", "")
    if mode == "real":
        return real
    if mode == "virtual":
        return virtual
    return st.sampled_from(range(share)).flatmap(lambda k: real if k == 0 else virtual)


RULE_NOTE = (" One case in 16 (label real_processes) is executed with REAL task processes instead of the virtual kernel: bash "
             "children that sleep for generated delays (0-80 ms) under the real Linux scheduler and real SIGCHLD delivery; the "
             "event order is read from one O_APPEND log (task start/end lines, Conductor's prints), never from a clock.")
