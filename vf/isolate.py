"""Fork-per-invocation driver for the real `cond` CLI (DESIGN §1, §2.5).

`run_cond()` forks; the child runs conductor.__main__.main() in-process with
sys.argv patched, optionally under the virtual kernel and/or a settrace-based
fault injector, and sends a pickled result back over a pipe.
"""
import io
import os
import pickle
import select
import signal
import sys
import time
import traceback

from . import kernel as K

REPO = os.environ.get("VERIF_REPO", "/repo")
SRC = os.path.join(REPO, "src")
SRC_REAL = os.path.realpath(SRC)


class HarnessError(Exception):
    pass


def setup_imports():
    """Install interposition, then import conductor from the working tree."""
    K.install()
    if SRC not in sys.path:
        sys.path.insert(0, SRC)
    import conductor.__main__  # noqa: F401
    try:
        import conductor.envs.manager_impl  # noqa: F401  (heavy; import once in the parent)
    except ImportError:
        pass
    import conductor
    got = os.path.realpath(os.path.dirname(conductor.__file__))
    want = os.path.join(SRC_REAL, "conductor")
    if got != want:
        raise HarnessError("conductor imported from %s, expected %s" % (got, want))


class _Buf:
    def __init__(self, cap):
        self._cap = cap

    def write(self, b):
        self._cap._check()
        self._cap._add(bytes(b))
        return len(b)

    def flush(self):
        self._cap._check()


class Capture(io.TextIOBase):
    """sys.stdout / sys.stderr replacement: write-through, records every write
    as an event so prints are totally ordered with spawns/exits."""

    def __init__(self, name, events):
        super().__init__()
        self._name = name
        self._events = events
        self._chunks = []
        self.buffer = _Buf(self)
        self.broken = False   # True: the stream has gone away (the reader of the pipe exited): every write fails with EPIPE

    def _check(self):
        if self.broken:
            import errno
            raise BrokenPipeError(errno.EPIPE, "Broken pipe")

    @property
    def encoding(self):
        return "utf-8"

    def _add(self, b):
        self._chunks.append(b)
        self._events.append({"e": "out", "s": self._name, "b": b})

    def write(self, s):
        self._check()
        self._add(s.encode("utf-8", "surrogateescape"))
        return len(s)

    def flush(self):
        self._check()

    def isatty(self):
        return False

    def writable(self):
        return True

    def getvalue(self):
        return b"".join(self._chunks)


class Injector:
    """sys.settrace line counter / fault injector (main thread only).

    mode: "count" | "kill" | "abort"
    files: tuple of path prefixes whose line events are counted
    at: the 1-based index of the line event at which to strike
    window: optional (start_func, ) — only count inside conductor code anyway
    """

    def __init__(self, mode, at=None, files=None, sig=signal.SIGINT, on_kill=None,
                 record_at=False, only_in=None, at2=None, returns=False):
        self.mode = mode
        self.at = at
        self.returns = returns  # function returns are injection points too (a signal that arrived during the C call of
        #                         a function's last statement is handled inside that function, before it returns)
        self.at2 = at2      # abort mode: a second signal this many line events after the first
        self.fired2 = None
        self.files = tuple(files or (os.path.join(SRC_REAL, "conductor"),))
        self.sig = sig
        self.count = 0
        self.fired = None  # (filename, lineno, funcname, stack)
        self.on_kill = on_kill
        self.pending = False
        self.only_in = only_in  # optional set of function names delimiting a window
        self._depth_in_window = 0
        self._cache = {}
        self.trace_lines = [] if record_at else None
        self.outside_window = False
        self._win = 0

    def _want(self, filename):
        r = self._cache.get(filename)
        if r is None:
            rp = os.path.realpath(filename) if filename and not filename.startswith("<") else filename
            r = bool(rp) and rp.startswith(self.files)
            self._cache[filename] = r
        return r

    def tracer(self, frame, event, arg):
        if not self._want(frame.f_code.co_filename):
            return None
        if self.only_in and frame.f_code.co_name in self.only_in:
            self._win += 1
            return self.local_window_root
        return self.local

    def local_window_root(self, frame, event, arg):
        if event == "return":
            if self.returns:
                self.local(frame, event, arg)
            self._win -= 1
            return self.local_window_root
        self.local(frame, event, arg)
        return self.local_window_root

    def local(self, frame, event, arg):
        if event != "line" and not (self.returns and event == "return" and not frame.f_code.co_flags & 0x2A0
                                    and (self.returns is True or frame.f_code.co_name in self.returns)):
            # (0x2A0: generator / coroutine / async generator frames "return" at every yield)
            return self.local
        if self.only_in and self._win <= 0 and not self.pending:
            return self.local
        self.count += 1
        if self.trace_lines is not None:
            self.trace_lines.append((os.path.basename(frame.f_code.co_filename),
                                     frame.f_lineno, frame.f_code.co_name))
        if self.mode == "budget":
            if self.count > self.at:
                self._mark(frame)
                self.on_kill(self)
                os._exit(0)
            return self.local
        if (self.mode == "abort" and self.at2 and self.fired is not None and not self.pending
                and self.fired2 is None and self.count >= self.fired["count"] + self.at2):
            self._second(frame)
            return self.local
        if self.mode == "count" or self.fired is not None and not self.pending:
            return self.local
        if self.count == self.at or self.pending:
            if self.mode == "kill":
                self._mark(frame)
                self.on_kill(self)
                os._exit(137)
            elif self.mode == "abort":
                # Honour a signal mask: a blocked signal is delivered when unblocked.
                if self.sig in signal.pthread_sigmask(signal.SIG_BLOCK, []):
                    self.pending = True
                    return self.local
                h = signal.getsignal(self.sig)
                if not (callable(h) and str(getattr(h, "__module__", "")).startswith("conductor")):
                    # Conductor has not installed its handler yet (or not any more):
                    # deliver as soon as it has one.
                    self.pending = True
                    return self.local
                self.pending = False
                self._mark(frame)
                if callable(h):
                    if self.on_kill is not None:
                        self.on_kill(self)
                    h(self.sig, frame)
                elif h == signal.SIG_DFL:
                    # default disposition: SIGINT -> KeyboardInterrupt, SIGTERM -> die
                    if self.on_kill is not None:
                        self.on_kill(self)
                    if self.sig == signal.SIGINT:
                        raise KeyboardInterrupt
                    os._exit(128 + int(self.sig))
        return self.local

    def profiler(self, frame, event, arg):
        """CPython switches tracing off when a trace function raises (which is how the
        first signal is delivered); the profile hook is not affected, so the next
        call/return event switches line tracing back on for the second signal."""
        if self.fired is None or self.fired2 is not None or sys.gettrace() is not None:
            return
        sys.settrace(self.tracer)
        win = 0
        # a frame that is returning gets no further trace events
        f = frame.f_back if event == "return" else frame
        while f is not None:
            if self._want(f.f_code.co_filename):
                if self.only_in and f.f_code.co_name in self.only_in:
                    win += 1
                    f.f_trace = self.local_window_root
                else:
                    f.f_trace = self.local
            f = f.f_back
        self._win = win

    def _second(self, frame):
        """A second signal while the first one is being handled."""
        if self.sig in signal.pthread_sigmask(signal.SIG_BLOCK, []):
            return  # stays pending in the kernel; try again at the next line
        first = self.fired
        self._mark(frame)
        self.fired2, self.fired = self.fired, first
        h = signal.getsignal(self.sig)
        if callable(h):
            self.fired2["disposition"] = "handler"
            h(self.sig, frame)
        elif h == signal.SIG_IGN:
            self.fired2["disposition"] = "ignored"
        else:
            self.fired2["disposition"] = "default"
            if self.sig == signal.SIGINT:
                raise KeyboardInterrupt
            self.died_by_default = True
            if self.on_kill is not None:
                self.on_kill(self)
            os._exit(128 + int(self.sig))

    def _mark(self, frame):
        stack = []
        f = frame
        while f is not None:
            stack.append((os.path.basename(f.f_code.co_filename), f.f_lineno, f.f_code.co_name))
            f = f.f_back
        self.fired = {
            "file": os.path.relpath(os.path.realpath(frame.f_code.co_filename), SRC_REAL),
            "line": frame.f_lineno,
            "func": frame.f_code.co_name,
            "count": self.count,
            "stack": stack[:25],
        }


def _child(wfd, root, argv, cwd, kspec, inject, env, pre, post, want_events, after_main=None):
    """Runs in the forked child.  Never returns."""
    res = {"status": None, "uncaught": None}
    sent = [False]
    k = None
    out = err = None

    def send(extra=None):
        if sent[0]:
            return
        sent[0] = True
        if extra:
            res.update(extra)
        if k is not None:
            res["kernel"] = k.summary()
            res["events"] = k.events if want_events else []
        else:
            res["events"] = events if want_events else []
        res["stdout"] = out.getvalue() if out is not None else b""
        res["stderr"] = err.getvalue() if err is not None else b""
        data = pickle.dumps(res, protocol=pickle.HIGHEST_PROTOCOL)
        view = memoryview(data)
        while len(view):
            n = os.write(wfd, view)
            view = view[n:]
        os.close(wfd)

    events = []
    try:
        # fresh default dispositions, whatever the harness parent had
        signal.signal(signal.SIGINT, signal.default_int_handler)
        signal.signal(signal.SIGTERM, signal.SIG_DFL)
        signal.signal(signal.SIGCHLD, signal.SIG_DFL)
        if env:
            for key, val in env.items():
                if val is None:
                    os.environ.pop(key, None)
                else:
                    os.environ[key] = val
        os.chdir(cwd or root)
        sys.argv = ["cond"] + list(argv)
        if os.environ.get("VERIF_HANG_DUMP"):
            import faulthandler
            _hd = open(os.path.join(os.environ["VERIF_HANG_DUMP"], "hang-%d.txt" % os.getpid()), "w")
            faulthandler.dump_traceback_later(float(os.environ.get("VERIF_HANG_AFTER", "8")), file=_hd)
        if kspec is not None:
            k = K.Kernel(kspec, root=root)
            events = k.events

            def fatal(kind, detail):
                send({"status": kind, "detail": detail})
                os._exit(0)

            k.fatal = fatal
            K.activate(k)
            k.start_watchdog()
        out = Capture("o", events)
        err = Capture("e", events)
        sys.stdout = out
        sys.stderr = err
        import conductor.__main__ as cm

        inj = None
        if inject is not None:
            def on_kill(injector):
                if getattr(injector, "died_by_default", False):
                    res["inject2"] = injector.fired2
                    send({"status": 128 + int(injector.sig), "lines": injector.count})
                    return
                res["inject"] = injector.fired
                if k is not None:
                    res["inject"]["live"] = [p.pid for p in k.procs.values()
                                             if p.state in ("running", "zombie") and not p.foreign]
                    res["inject"]["running"] = [p.pid for p in k.procs.values()
                                                if p.state == "running" and not p.foreign]
                    res["inject"]["event_idx"] = len(k.events)
                if injector.mode == "kill":
                    send({"status": "killed", "lines": injector.count})
                if injector.mode == "budget":
                    send({"status": "livelock", "lines": injector.count,
                          "detail": "more than %d lines executed; spinning in %s" % (
                              injector.at, " <- ".join("%s:%s" % (f[2], f[1]) for f in injector.fired["stack"][:5]))})

            inj = Injector(on_kill=on_kill, **inject)
        if pre is not None:
            pre(res)
        try:
            if inj is not None:
                sys.settrace(inj.tracer)
                if inj.at2:
                    sys.setprofile(inj.profiler)
            try:
                cm.main()
            finally:
                if after_main is not None:
                    after_main()
                if inj is not None:
                    sys.setprofile(None)
                    sys.settrace(None)
            res["status"] = 0
        except SystemExit as ex:
            code = ex.code
            if code is None:
                code = 0
            elif not isinstance(code, int):
                err.broken = False
                err.write(str(code) + "\n")
                code = 1
            res["status"] = code
        except BaseException as ex:  # what the interpreter would print + exit 1
            if isinstance(ex, K.HarnessError):
                raise
            res["status"] = 1
            res["uncaught"] = type(ex).__name__
            res["uncaught_tb"] = traceback.format_exc()
            err.broken = False
            err.write(traceback.format_exc())
        if inj is not None:
            res["lines"] = inj.count
            res["outside_window"] = inj.outside_window
            if inj.fired is not None and "inject" not in res:
                res["inject"] = inj.fired
            if inj.fired2 is not None:
                res["inject2"] = inj.fired2
            if inj.trace_lines is not None:
                res["trace_lines"] = inj.trace_lines
        if post is not None:
            post(res)
        send()
    except BaseException:
        try:
            send({"status": "harness_error", "detail": traceback.format_exc()})
        except BaseException:
            pass
    finally:
        os._exit(0)


UNPRIVILEGED_UID = 65534


def chown_tree(root, uid=UNPRIVILEGED_UID):
    """Hand a scratch project to the unprivileged user (the harness runs as root, for which permission bits mean nothing)."""
    for dp, dn, fn in os.walk(root):
        os.lchown(dp, uid, uid)
        for n in fn + [d for d in dn if os.path.islink(os.path.join(dp, d))]:
            os.lchown(os.path.join(dp, n), uid, uid)


def source_usable_without_privileges():
    """Conductor reads files of its own package at run time: can an ordinary user reach the tree under test?"""
    p = os.path.join(SRC_REAL, "conductor")
    while True:
        try:
            mode = os.stat(p).st_mode
        except OSError:
            return False
        if mode & 0o005 != 0o005:
            return False
        if p == "/":
            return True
        p = os.path.dirname(p)


def drop_privileges(res=None, uid=UNPRIVILEGED_UID):
    """`pre` hook for run_cond: the forked child continues as an ordinary user."""
    os.setgroups([])
    os.setgid(uid)
    os.setuid(uid)
    os.environ["HOME"] = "/nonexistent"


LINE_BUDGET = 1000000
_HANG_SEEN = [False]


def run_cond(root, argv, cwd=None, kspec=None, inject=None, env=None, timeout=None,
             pre=None, post=None, want_events=True, _retry=False):
    """Run one `cond <argv>` invocation in a forked child; return the result dict.

    result keys: status (int | "deadlock" | "killed"), stdout, stderr (bytes),
    events (list), kernel (summary), uncaught, inject, lines
    """
    if _HANG_SEEN[0] and kspec is not None and inject is None and not _retry:
        # a non-returning run was already seen in this process: run under the line budget right away
        res = run_cond(root, argv, cwd=cwd, kspec=kspec, env=env, timeout=240, pre=pre, post=post,
                       want_events=want_events, inject={"mode": "budget", "at": LINE_BUDGET}, _retry=True)
        res.pop("inject", None) if res.get("status") != "livelock" else None
        return res
    if timeout is None:
        # virtual-kernel runs take milliseconds; real children may write megabytes
        timeout = int(os.environ.get("VERIF_RUN_TIMEOUT", "15" if kspec is not None else "120"))
    r, w = os.pipe()
    sys.stdout.flush()
    sys.stderr.flush()
    pid = os.fork()
    if pid == 0:
        os.close(r)
        _child(w, root, argv, cwd, kspec, inject, env, pre, post, want_events)
    os.close(w)
    chunks = []
    deadline = time.monotonic() + timeout
    try:
        while True:
            left = deadline - time.monotonic()
            if left <= 0:
                os.kill(pid, signal.SIGKILL)
                if kspec is not None and inject is None and not _retry:
                    # Deterministic classification of a non-returning virtual run: execute it again with a
                    # budget of executed lines (hundreds of times a normal run). Exceeding it is a livelock.
                    res = run_cond(root, argv, cwd=cwd, kspec=kspec, env=env, timeout=240, pre=pre, post=post,
                                   want_events=want_events, inject={"mode": "budget", "at": LINE_BUDGET}, _retry=True)
                    if res.get("status") == "livelock":
                        _HANG_SEEN[0] = True
                        return res
                raise HarnessError("cond %r did not finish within %ss (inconclusive)" % (argv, timeout))
            rr, _, _ = select.select([r], [], [], min(left, 5.0))
            if rr:
                b = os.read(r, 1 << 20)
                if not b:
                    break
                chunks.append(b)
    finally:
        os.close(r)
        try:
            os.kill(pid, signal.SIGKILL)
        except OSError:
            pass
        os.waitpid(pid, 0)
    data = b"".join(chunks)
    if not data:
        raise HarnessError("child for cond %r sent no result" % (argv,))
    res = pickle.loads(data)
    if res.get("status") == "harness_error":
        raise HarnessError("harness error in child: " + res.get("detail", ""))
    return res


def call_in_child(fn, env=None, timeout=60):
    """Run fn() in a forked child with os.environ updated by env; returns its (picklable) result."""
    r, w = os.pipe()
    pid = os.fork()
    if pid == 0:
        try:
            os.close(r)
            if env is not None:
                for k in [k for k in os.environ if k.startswith("COND_")]:
                    del os.environ[k]
                os.environ.update(env)
            try:
                out = ("ok", fn())
            except BaseException as ex:  # noqa
                out = ("exc", "%s: %s" % (type(ex).__name__, ex))
            data = pickle.dumps(out)
            while data:
                n = os.write(w, data)
                data = data[n:]
        finally:
            os._exit(0)
    os.close(w)
    chunks = []
    deadline = time.monotonic() + timeout
    while True:
        rr, _, _ = select.select([r], [], [], max(0.0, deadline - time.monotonic()))
        if not rr:
            os.kill(pid, signal.SIGKILL)
            os.waitpid(pid, 0)
            os.close(r)
            raise HarnessError("call_in_child timed out")
        b = os.read(r, 1 << 16)
        if not b:
            break
        chunks.append(b)
    os.close(r)
    os.waitpid(pid, 0)
    return pickle.loads(b"".join(chunks))
