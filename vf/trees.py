"""Directory-tree snapshots: names, types and bytes (mtime/inode ignored)."""
import hashlib
import os


def snapshot(root, skip=()):
    """-> {relpath: ("d",) | ("f", sha1hex, size) | ("l", target)} for everything below root."""
    out = {}
    root = os.fspath(root)
    if not os.path.isdir(root):
        return out
    for dirpath, dirnames, filenames in os.walk(root, followlinks=False):
        rel = os.path.relpath(dirpath, root)
        for d in list(dirnames):
            p = os.path.join(dirpath, d)
            r = d if rel == "." else os.path.join(rel, d)
            if r in skip:
                dirnames.remove(d)
                continue
            if os.path.islink(p):
                out[r] = ("l", os.readlink(p))
                dirnames.remove(d)
            else:
                out[r] = ("d",)
        for f in filenames:
            p = os.path.join(dirpath, f)
            r = f if rel == "." else os.path.join(rel, f)
            if r in skip:
                continue
            if os.path.islink(p):
                out[r] = ("l", os.readlink(p))
            else:
                h = hashlib.sha1()
                with open(p, "rb") as fh:
                    while True:
                        b = fh.read(1 << 20)
                        if not b:
                            break
                        h.update(b)
                out[r] = ("f", h.hexdigest(), os.path.getsize(p))
    return out


def subtree(snap, prefix):
    """Entries strictly below prefix, re-rooted."""
    pre = prefix.rstrip("/") + "/"
    return {k[len(pre):]: v for k, v in snap.items() if k.startswith(pre)}


def tree_hash(snap):
    h = hashlib.sha1()
    for k in sorted(snap):
        h.update(repr((k, snap[k])).encode())
    return h.hexdigest()


def diff(a, b, limit=6):
    """Human-readable differences between two snapshots."""
    out = []
    for k in sorted(set(a) | set(b)):
        if a.get(k) != b.get(k):
            out.append("%s: %s -> %s" % (k, a.get(k, "absent")[0] if k in a else "absent",
                                         b.get(k, "absent")[0] if k in b else "absent"))
            if len(out) >= limit:
                break
    return out


def write_tree(base, entries):
    """entries: [[relpath, content-or-None]] (None => directory); content is a latin-1 str."""
    for rel, content in entries:
        p = os.path.join(base, rel)
        if content is None:
            os.makedirs(p, exist_ok=True)
        elif isinstance(content, str) and content.startswith("LINK:"):
            os.makedirs(os.path.dirname(p), exist_ok=True)
            if not os.path.lexists(p):
                os.symlink(content[5:], p)
        else:
            os.makedirs(os.path.dirname(p), exist_ok=True)
            with open(p, "wb") as f:
                f.write(content.encode("latin-1") if isinstance(content, str) else content)
