"""Dumps what conductor.lib reports inside a task (JSON on stdout)."""
import json
import conductor.lib as cond
print(json.dumps({
    "get_output_path": str(cond.get_output_path()),
    "get_deps_paths": [str(p) for p in cond.get_deps_paths()],
    "in_output_dir": str(cond.in_output_dir("sub/file.txt")),
    "types": [type(cond.get_output_path()).__name__] + [type(p).__name__ for p in cond.get_deps_paths()],
}))
