"""Task body for C10: writes the chunks listed in $VF_EMIT_SPEC in order, then exits with the given status.
spec: {"chunks": [[fd, latin-1 text], ...], "exit": n}"""
import json
import os
import sys

spec = json.load(open(os.environ["VF_EMIT_SPEC"]))
for fd, data in spec["chunks"]:
    b = data.encode("latin-1")
    view = memoryview(b)
    while len(view):
        n = os.write(fd, view)
        view = view[n:]
os._exit(spec.get("exit", 0))
