#!/bin/bash
# Task body for the real-process layer: records what the task observes into $VF_SIDE.
rec="$VF_SIDE/$COND_NAME.$$.rec"
{
  printf 'cwd\0%s\0' "$(pwd -P)"
  printf 'argc\0%s\0' "$#"
  for a in "$@"; do printf 'arg\0%s\0' "$a"; done
  printf 'COND_OUT\0%s\0' "${COND_OUT-<unset>}"
  printf 'COND_DEPS\0%s\0' "${COND_DEPS-<unset>}"
  printf 'COND_NAME\0%s\0' "${COND_NAME-<unset>}"
  printf 'COND_SLOT\0%s\0' "${COND_SLOT-<unset>}"
  if [ -d "$COND_OUT" ]; then printf 'out_is_dir\0yes\0'; else printf 'out_is_dir\0no\0'; fi
  printf 'listing\0%s\0' "$(ls -A "$COND_OUT" 2>/dev/null | tr '\n' ',')"
} > "$rec.tmp"
if [ -n "$VF_PYPROBE" ] && [ "$COND_NAME" = "$VF_PYPROBE" ]; then
  /venv/bin/python "$(dirname "$0")/probe.py" > "$rec.py" 2>&1
fi
echo "made by $COND_NAME" > "$COND_OUT/result.txt"
mv "$rec.tmp" "$rec"
exit 0
