"""C11 — archive then restore reproduces exactly the selected versions."""
import glob
import os
import shutil

from hypothesis import strategies as st

from .. import graph, model, projgen, trees
from ..isolate import run_cond
from ..runner import Outcome

ID = "C11"
LEVEL = "exploration"
RULE = ("Hypothesis-generated projects (nested packages; experiments, commands, groups, combines mixed on dependency paths; task "
        "names over the identifier alphabet incl. leading '-', '_' and digits) with 0-4 recorded versions per experiment (free "
        "timestamps incl. equal timestamps across tasks, hex or NULL commit hash, dirty flag) and rows of tasks no longer "
        "defined; per-version output trees of 0-10 entries (nested/empty directories, empty files, names with spaces, unicode, "
        "leading '-', look-alikes such as x.task.5, binary content, an occasional ~1 MB file); flags: --latest, task argument "
        "absent / an experiment / a non-archivable task with experiments (and diamonds) below it, -o absent/directory/file. "
        "Sequence: snapshot source, archive, snapshot again, restore into a fresh copy of the sources or into the cleaned project, "
        "snapshot. Oracle: restored rows == model selection as a set of 4-tuples; every selected version's tree byte-identical; "
        "no other version directory; source rows and trees unchanged; archive succeeds iff the selection is non-empty. "
        "Non-trivial = selection is a strict non-empty subset of the rows, or >=2 versions of one task selected, or package "
        "depth >=2. Distinct = SHA-1 of case JSON."
        " Also generated: symbolic links inside outputs; a relative archive name containing ':'; a stale temporary archive index left in cond-out by a killed `cond archive`.")
ASSUMPTIONS = ["symbolic links inside experiment outputs are part of the tree (relative, to a directory, dangling); they must come back as the same links",
               "every recorded version has its directory in the source project (C06/C12 cover the other cases)"]
ESSENTIAL = ["latest", "task_closure_with_nonarchivable_between", "diamond_below_task", "nested_pkg", "name_leading_dash_root_pkg",
             "undefined_task_rows", "empty_output_dir", "symlink_in_output", "equal_ts_across_tasks", "null_commit", "dirty_flag", "empty_selection",
             "out_dir", "out_file", "out_relative_name_with_colon", "restore_into_cleaned",
             "stale_temporary_archive_index", "unrecorded_leftover_directories_in_the_destination"]
TECHNIQUE = "property-based round-trip testing (Hypothesis): archive -> restore with real tar; model selection + tree snapshots as oracle"
LEVEL_TEXT = "Randomised round-trip search over index contents, output trees and flags; exact equality of rows and trees in both projects."
LEVEL_NOTE = "Trusted: the selection model in this file; vf/trees.py."

NAMES = ["e", "x", "-x", "_u", "T1", "9", "a-b", "-", "_"]
HASHES = [None, None, "a" * 40, "0123456789abcdef0123456789abcdef01234567", "f" * 40, "00ff" * 10]
TREE_ENTRIES = [["out.txt", "hello\n"], ["a b.txt", "space"], ["-dash", "dash"], ["üni.dat", "\xff\xfe\x00"], ["x.task.5", None],
                ["x.task.5/inner", "look-alike"], ["sub/deep/file", "deep"], ["empty_dir", None], ["zero.bin", ""],
                ["stdout.log", "log line\n"], ["args.json", "[1]"], ["y.task", None], ["sub/--opt", "x"],
                ["latest.txt", "LINK:out.txt"], ["dlink", "LINK:sub"], ["dangling", "LINK:/nonexistent/dataset"],
                ["sub/up", "LINK:../out.txt"], ["big.bin", "B" * 1000000]]


@st.composite
def _case(draw, tier):
    g = draw(graph.graph_case(max_tasks=7, min_tasks=1, outcomes="none", kind_weights=(2, 5, 1, 1), flags=(), tape_max=0, seeded=False))
    g["pkgs"] = draw(st.sampled_from([[""], ["", "a"], ["", "a", "a/b"], ["a/b/c", ""], ["p-1", "p-1/_q"]]))
    used = set()
    for i, t in enumerate(g["tasks"]):
        t["pkg"] = draw(st.sampled_from(range(len(g["pkgs"]))))
        nm = draw(st.sampled_from(NAMES))
        while (t["pkg"], nm) in used:
            nm = nm + str(i)
        used.add((t["pkg"], nm))
        t["name"] = nm
    for t in g["tasks"]:
        for d in t["deps"]:
            if g["tasks"][d[0]]["pkg"] != t["pkg"]:
                d[1] = "abs"
    # combine deps need distinct names
    for t in g["tasks"]:
        if t["kind"] == "combine":
            seen, keep = set(), []
            for d in t["deps"]:
                nm = g["tasks"][d[0]]["name"]
                if nm not in seen:
                    seen.add(nm)
                    keep.append(d)
            t["deps"] = keep
    exps = [i for i, t in enumerate(g["tasks"]) if t["kind"] == "exp"]
    nonleaf = [i for i, t in enumerate(g["tasks"]) if t["deps"]]
    use_task = draw(st.sampled_from([False, True, True]))
    task_arg = draw(st.sampled_from((nonleaf * 3 if nonleaf else []) + list(range(len(g["tasks"]))))) if use_task else None
    rows = []
    ts_pool = [5, 7, 100, 101, 1700000000, 1700000001, 42]
    for i in exps:
        k = draw(st.sampled_from([1, 1, 1, 2, 3] if use_task else [0, 1, 1, 2, 3, 4]))
        tss = draw(st.lists(st.sampled_from(ts_pool), min_size=k, max_size=k, unique=True))
        for ts in tss:
            ne = draw(st.sampled_from([0, 1, 2, 3, 5, 10]))
            ent = draw(st.lists(st.sampled_from(range(len(TREE_ENTRIES) - 1)), min_size=ne, max_size=ne, unique=True))
            if draw(st.sampled_from(range(40))) == 0:
                ent.append(len(TREE_ENTRIES) - 1)
            rows.append([i, ts, draw(st.sampled_from(HASHES)), draw(st.sampled_from([False, False, True])), ent])
    for _ in range(draw(st.sampled_from([0, 0, 0, 1, 2]))):
        rows.append(["//gone/pkg:old%d" % len(rows), draw(st.sampled_from(ts_pool)), draw(st.sampled_from(HASHES)), False, [0]])
    g["rows"] = rows
    g["latest"] = draw(st.booleans())
    g["task_arg"] = task_arg
    g["out"] = draw(st.sampled_from([None, None, "dir", "file", "rel_colon"]))
    # leftover of an earlier `cond archive` that was killed: its temporary index (with some of the rows) still in cond-out
    g["stale_tmp_index"] = draw(st.sampled_from([None, None, None, 1, 2, 3]))
    g["restore_into"] = draw(st.sampled_from(["fresh", "fresh", "cleaned"]))
    # the destination holds UNRECORDED directories named like versions of the archive (what an interrupted restore of the
    # same archive, or a killed `cond clean`, leaves behind): the project still "lacks those versions"
    g["leftovers"] = draw(st.sampled_from([0, 0, 0, 1, 2, 5]))
    return g


def strategy(tier):
    return _case(tier)


def examples(tier):
    return 2400 if tier == "quick" else 100000


def selection(case, ids):
    rows = case["rows"]

    def tid(r):
        return ids[r[0]] if isinstance(r[0], int) else r[0]
    cand = list(rows)
    if case["task_arg"] is not None:
        clo = model.closure(case, case["task_arg"])
        cand = [r for r in cand if isinstance(r[0], int) and r[0] in clo and case["tasks"][r[0]]["kind"] == "exp"]
    if case["latest"]:
        best = {}
        for r in cand:
            if tid(r) not in best or r[1] > best[tid(r)][1]:
                best[tid(r)] = r
        cand = list(best.values())
    return {(tid(r), r[1], r[2], bool(r[3])) for r in cand}


def build(root, case, ids):
    projgen.write_project(root, case)
    rows = []
    for r in case["rows"]:
        t = ids[r[0]] if isinstance(r[0], int) else r[0]
        rows.append((t, r[1], r[2], r[3]))
    projgen.seed_rows(root, rows, make_dirs=False)
    for r in case["rows"]:
        t = ids[r[0]] if isinstance(r[0], int) else r[0]
        d = projgen.version_dir(root, t, r[1])
        os.makedirs(d, exist_ok=True)
        trees.write_tree(d, [TREE_ENTRIES[k] for k in sorted(r[4])])


def version_trees(root):
    """{(task_id, ts): tree snapshot} for every <name>.task.<ts> directory below cond-out (not nested in one)."""
    out = {}
    base = os.path.join(root, "cond-out")
    stack = [base]
    while stack:
        d = stack.pop()
        if not os.path.isdir(d):
            continue
        for n in os.listdir(d):
            p = os.path.join(d, n)
            if not os.path.isdir(p) or os.path.islink(p):
                continue
            name, sep, ts = n.rpartition(".task.")
            if sep and ts.isdigit() and model.accepts_name(name):
                rel = os.path.relpath(d, base)
                out[("//%s:%s" % ("" if rel == "." else rel, name), int(ts))] = trees.snapshot(p)
            elif n.endswith(".task") or n.startswith("archive-tmp."):
                continue
            else:
                stack.append(p)
    return out


def run_case(case):
    src = projgen.new_scratch("c11s")
    dst = projgen.new_scratch("c11d")
    aux = projgen.new_scratch("c11o")
    try:
        return _run(case, src, dst, aux)
    finally:
        projgen.rm(src)
        projgen.rm(dst)
        projgen.rm(aux)


def _run(case, src, dst, aux):
    ids = projgen.idents(case)
    labels = set()
    v = []
    build(src, case, ids)
    sel = selection(case, ids)
    all_rows = {((ids[r[0]] if isinstance(r[0], int) else r[0]), r[1], r[2], bool(r[3])) for r in case["rows"]}
    argv = ["archive"]
    if case["latest"]:
        argv.append("--latest")
        labels.add("latest")
    out_path = None
    if case["out"] == "dir":
        argv += ["-o", aux]
        labels.add("out_dir")
    elif case["out"] == "file":
        out_path = os.path.join(aux, "my archive.tar.gz")
        argv += ["-o", out_path]
        labels.add("out_file")
    elif case["out"] == "rel_colon":
        # a plain relative file name such as $(date -Iseconds).tar.gz
        out_path = os.path.join(src, "2026-10-01T12:30.tar.gz")
        argv += ["-o", "2026-10-01T12:30.tar.gz"]
        labels.add("out_relative_name_with_colon")
    if case["task_arg"] is not None:
        argv.append(ids[case["task_arg"]])
        ta = case["task_arg"]
        clo = model.closure(case, ta)
        if case["tasks"][ta]["kind"] != "exp" and any(case["tasks"][x]["kind"] == "exp" for x in clo):
            labels.add("task_closure_with_nonarchivable_between")
        indeg = {}
        for x in clo:
            for d in model.dep_indices(case, x):
                indeg[d] = indeg.get(d, 0) + 1
        if any(c >= 2 and case["tasks"][d]["kind"] == "exp" for d, c in indeg.items()):
            labels.add("diamond_below_task")
    for r in case["rows"]:
        t = ids[r[0]] if isinstance(r[0], int) else r[0]
        if not isinstance(r[0], int):
            labels.add("undefined_task_rows")
        if t.startswith("//:-"):
            labels.add("name_leading_dash_root_pkg")
        if t.count("/") >= 3:
            labels.add("nested_pkg")
        if not r[4]:
            labels.add("empty_output_dir")
        if any(isinstance(TREE_ENTRIES[k][1], str) and TREE_ENTRIES[k][1].startswith("LINK:") for k in r[4]):
            labels.add("symlink_in_output")
        if r[2] is None:
            labels.add("null_commit")
        if r[3]:
            labels.add("dirty_flag")
    tss = [r[1] for r in case["rows"]]
    if len(set(tss)) < len(tss):
        labels.add("equal_ts_across_tasks")
    if case.get("stale_tmp_index") and case["rows"]:
        import sqlite3
        k = case["stale_tmp_index"]
        stale = [r for n, r in enumerate(sorted(all_rows, key=repr)) if (n + k) % 3 != 0] or sorted(all_rows, key=repr)[:1]
        conn = sqlite3.connect(os.path.join(src, "cond-out", "version_index_archive.sqlite"))
        conn.execute("PRAGMA user_version = 2")
        conn.execute(projgen._CREATE)
        conn.executemany("INSERT INTO version_index VALUES (?, ?, ?, ?)", [(t, int(ts), c, 1 if d else 0) for t, ts, c, d in stale])
        conn.commit()
        conn.close()
        labels.add("stale_temporary_archive_index")
    src_before = trees.snapshot(src)
    rows_before = projgen.read_rows(src)
    res = run_cond(src, argv, timeout=180)
    err = res["stderr"].decode("utf-8", "replace")
    src_after = trees.snapshot(src)
    summary = {"argv": argv, "rows": sorted(all_rows, key=repr)[:10], "selected": sorted(sel, key=repr)[:10], "status": res["status"]}
    if res.get("uncaught"):
        v.append(("archive_traceback:" + res["uncaught"], "cond %s: %s" % (" ".join(argv), res["uncaught_tb"].strip().splitlines()[-1])))
        return Outcome(v, sorted(labels), False, summary)
    # locate the archive
    if out_path is None:
        where = aux if case["out"] == "dir" else os.path.join(src, "cond-out")
        found = glob.glob(os.path.join(where, "cond-archive+*.tar.gz"))
        out_path = found[0] if len(found) == 1 else None
    if not sel:
        labels.add("empty_selection")
        if res["status"] != 1 or "ERROR:" not in err:
            v.append(("empty_selection_not_reported", "nothing to archive but status=%r" % res["status"]))
        if out_path and os.path.exists(out_path):
            v.append(("archive_file_for_empty_selection", "an archive file was left behind"))
        return Outcome(v, sorted(labels), False, summary)
    if res["status"] != 0 or not out_path or not os.path.isfile(out_path):
        v.append(("archive_failed", "cond %s must succeed (selection %d rows) but status=%r: %s" % (
            " ".join(argv), len(sel), res["status"], err.strip()[-300:])))
        return Outcome(v, sorted(labels), False, summary)
    # source unchanged apart from the new archive file
    arch_rel = os.path.relpath(out_path, src)
    changed = [k for k in set(src_before) | set(src_after) if src_before.get(k) != src_after.get(k)
               and k != arch_rel and not k.endswith("version_index.sqlite")
               and not k.endswith("cond-out/version_index_archive.sqlite")]   # archive's own temporary index (a planted leftover is removed)
    if changed:
        v.append(("source_modified", "archiving changed the source project: %s" % sorted(changed)[:4]))
    if projgen.read_rows(src) != rows_before:
        v.append(("source_rows_changed", "archiving changed the source project's recorded versions"))
    # restore
    if case["restore_into"] == "cleaned":
        labels.add("restore_into_cleaned")
        keep = os.path.join(aux, "kept.tar.gz")
        shutil.copy(out_path, keep)
        r2 = run_cond(src, ["clean", "-f"])
        target, archive = src, keep
        if r2["status"] != 0:
            v.append(("clean_failed", "clean -f status %r" % r2["status"]))
    else:
        projgen.write_project(dst, case)
        target, archive = dst, out_path
    if case.get("leftovers") and sel:
        labels.add("unrecorded_leftover_directories_in_the_destination")
        for k, (t, ts, _, _) in enumerate(sorted(sel, key=repr)[:case["leftovers"]]):
            d = projgen.version_dir(target, t, ts)
            os.makedirs(d, exist_ok=True)
            if k % 2 == 0:
                with open(os.path.join(d, "partial-copy.txt"), "w") as f:
                    f.write("left behind by an interrupted restore")
    if case["out"] == "rel_colon":
        shutil.copy(archive, os.path.join(target, "backup:v1.tar.gz"))
        archive = "backup:v1.tar.gz"
    res2 = run_cond(target, ["restore", archive], timeout=180)
    err2 = res2["stderr"].decode("utf-8", "replace")
    if res2["status"] != 0 or res2.get("uncaught"):
        v.append(("restore_failed", "restore of a fresh archive failed: status %r %s" % (res2["status"], (res2.get("uncaught_tb") or err2).strip()[-300:])))
        return Outcome(v, sorted(labels), False, summary)
    got_rows = set(projgen.read_rows(target))
    if got_rows != sel:
        v.append(("restored_rows", "restored versions %s, selection %s (extra %s, missing %s)" % (
            len(got_rows), len(sel), sorted(got_rows - sel, key=repr)[:3], sorted(sel - got_rows, key=repr)[:3])))
    want_trees = {}
    for r in case["rows"]:
        t = ids[r[0]] if isinstance(r[0], int) else r[0]
        if (t, r[1], r[2], bool(r[3])) in sel:
            want_trees[(t, r[1])] = r
    got_trees = version_trees(target)
    src_snap_trees = {}
    for (t, ts), r in want_trees.items():
        rel = os.path.relpath(projgen.version_dir("", t, ts), "cond-out") if False else None
    for key in set(got_trees) - set(want_trees):
        v.append(("extra_version_dir", "restore created %s.task.%d which was not selected" % key))
    for key, r in want_trees.items():
        if key not in got_trees:
            v.append(("version_dir_missing", "selected version %s@%d has no directory after restore" % key))
            continue
        reldir = os.path.relpath(projgen.version_dir(src, key[0], key[1]), src)
        want = trees.subtree(src_before, reldir)
        if got_trees[key] != want:
            v.append(("tree_differs", "%s@%d: %s" % (key[0], key[1], trees.diff(want, got_trees[key]))))
    left = [n for n in os.listdir(os.path.join(target, "cond-out")) if n.startswith("archive-tmp")]
    if left:
        v.append(("staging_left_behind", "cond-out/%s still exists after a successful restore" % left[0]))
    by_task = {}
    for s_ in sel:
        by_task[s_[0]] = by_task.get(s_[0], 0) + 1
    nontrivial = (0 < len(sel) < len(all_rows)) or any(c >= 2 for c in by_task.values()) or "nested_pkg" in labels
    seen, uv = set(), []
    for s_ in v:
        if s_[0] not in seen:
            seen.add(s_[0])
            uv.append(s_)
    return Outcome(uv, sorted(labels), nontrivial, summary)
