"""C04 — parallelism limits: --jobs bound, exclusive sequential tasks, distinct slots."""
from .. import graph, model, reallayer
from ..runner import Outcome

ID = "C04"
LEVEL = "exploration"
RULE = ("Hypothesis-generated graph cases biased to wide layers of parallelizable tasks mixed with sequential ones and "
        "with group/combine steps, --jobs absent/1..5, launch failures and non-zero exits, and schedule tapes that "
        "complete slots out of order. Oracle = replay of the event log maintaining the set of running task processes. "
        "Non-trivial = JOBS>=2, >=2 processes in flight at some instant, and a slot value handed out again after an "
        "out-of-order completion. Distinct = SHA-1 of case JSON."
        " A quarter of the cases start Conductor with COND_SLOT=7 already in its own environment."
        + reallayer.RULE_NOTE)
ASSUMPTIONS = ["a task process counts as running from its spawn until its exit event in the virtual kernel's log",
               "group/combine steps are instantaneous at their 'Running' print"]
ESSENTIAL = ["slot_reused_out_of_order", "sequential_ready_while_parallel_inflight", "sync_step_with_parallel_tasks",
             "more_ready_than_slots", "launch_failure_in_parallel_mode", "jobs_absent", "jobs=1", "cond_slot_in_conductors_own_environment"]
TECHNIQUE = "property-based testing (Hypothesis) under a virtual kernel; instantaneous invariants replayed over the spawn/exit log; one case in 16 runs real task processes (order read from one O_APPEND log, no clock)"
LEVEL_TEXT = ("Randomised search over graphs x parallelizable flags x --jobs x completion orders; every spawn's COND_SLOT and the "
              "running set at each instant are checked against the documented limits. Search, not proof.")
LEVEL_NOTE = "Trusted: (real-process share: vf/reallayer.py, the serialisation of O_APPEND writes) vf/kernel.py spawn/exit log."


def strategy(tier):
    from hypothesis import strategies as st

    @st.composite
    def with_env(draw):
        case = draw(st.one_of(graph.layered_case(flags=("stop_early",)), _general(tier)))
        case["outer_slot"] = draw(st.sampled_from([False, False, False, True]))
        return case
    real = st.one_of(reallayer.real_case(flags=("stop_early",), layered=True), reallayer.real_case(max_tasks=9, flags=("again",)))
    return reallayer.mixed(with_env(), real)


def _general(tier):
    return graph.graph_case(max_tasks=9 if tier == "quick" else 12, outcomes="some", max_bad=2,
                            kind_weights=(4, 3, 1, 1), p_par=0.75, p_seed_den=8,
                            densities=("sparse", "thin", "thin", "thin", "dense"),
                            jobs=(None, 1, 2, 2, 3, 3, 3, 4, 5), tape_max=60, tape_hi=31, flags=("again", "stop_early"))


def examples(tier):
    return 3200 if tier == "quick" else 150000


def run_case(case):
    # Conductor itself may be running inside a task of an outer `cond run -j N`: its own environment then carries COND_SLOT
    if case.get("layer") == "real":
        return check(case, reallayer.run_real(case))
    env = {"COND_SLOT": "7"} if case.get("outer_slot") else {"COND_SLOT": None}
    return check(case, graph.run_graph_case(case, env=env))


def check(case, res):
    obs = graph.Obs(case, res)
    v = []
    labels = ["real_processes"] if case.get("layer") == "real" else []
    if res["status"] in ("deadlock", "livelock"):
        return Outcome([], ["deadlock_ignored_here"], False, obs.brief())
    J = case["jobs"] if case["jobs"] is not None else 1
    if case.get("outer_slot"):
        labels.append("cond_slot_in_conductors_own_environment")
    labels.append("jobs_absent" if case["jobs"] is None else "jobs=%d" % J if J == 1 else "jobs>=2")
    running = {}  # pid -> (task, slot, par)
    freed_order = []
    reused = False
    max_running = 0
    msgs = {m[0]: m for m in obs.msgs}
    par_of = {obs.ids[i]: bool(t.get("par")) for i, t in enumerate(case["tasks"])}
    kind_of = {obs.ids[i]: t["kind"] for i, t in enumerate(case["tasks"])}
    spawn_order = []
    for i, e in enumerate(obs.events):
        k = e["e"]
        if k == "spawn" or (k == "launchfail" and e.get("pid") is None):
            task = e["task"]
            slot = e["env"].get("COND_SLOT")
            par = par_of.get(task, False)
            # (d) COND_SLOT unset exactly when not parallelizable or JOBS == 1
            if (slot is None) != (not par or J == 1):
                v.append(("slot_presence", "%s: parallelizable=%s JOBS=%d but COND_SLOT=%r" % (task, par, J, slot)))
            if slot is not None:
                if not slot.isdigit() or not (0 <= int(slot) < J):
                    v.append(("slot_range", "%s: COND_SLOT=%r not in [0, %d)" % (task, slot, J)))
                if any(s == slot for (_, s, _) in running.values()):
                    v.append(("slot_clash", "%s got COND_SLOT=%s which a running task holds" % (task, slot)))
                if slot in freed_order and freed_order and freed_order[0] != slot:
                    reused = True
                if slot in freed_order:
                    freed_order.remove(slot)
            # (b) sequential tasks run alone
            if running and (not par or any(not p for (_, _, p) in running.values())):
                v.append(("sequential_not_exclusive", "%s (parallelizable=%s) started while %s running" % (
                    task, par, sorted(t for (t, _, _) in running.values()))))
            if k == "spawn":
                if len(running) >= 1 and not par:
                    pass
                running[e["pid"]] = (task, slot, par)
                spawn_order.append(e["pid"])
                if k == "spawn" and e["pid"] in obs.procs and obs.events[i].get("e") == "spawn":
                    pass
            elif running:
                labels.append("launch_failure_in_parallel_mode")
            # (a) bound
            if len(running) > J:
                v.append(("jobs_exceeded", "%d task processes running with JOBS=%d" % (len(running), J)))
            max_running = max(max_running, len(running))
        elif k == "launchfail" and e.get("pid") is not None:
            # exec failure: the child was created and is already dead
            running.pop(e["pid"], None)
            if running:
                labels.append("launch_failure_in_parallel_mode")
        elif k == "exit" and not e.get("foreign"):
            ent = running.pop(e["pid"], None)
            if ent and ent[1] is not None:
                if running:
                    # completes while others (spawned earlier or later) still run
                    pass
                freed_order.append(ent[1])
        elif k == "out" and i in msgs and msgs[i][1] == "running":
            task = msgs[i][2]
            if kind_of.get(task) in ("group", "combine"):
                if running:
                    v.append(("sync_step_not_exclusive", "%s step started while %s running" % (
                        task, sorted(t for (t, _, _) in running.values()))))
    if reused:
        labels.append("slot_reused_out_of_order")
    if max_running >= 2:
        labels.append("inflight>=2")
    # readiness labels from the model: a sequential/sync task whose deps are all done while parallel ones run
    need, _ = model.needed(case, case["target"], {int(i) for i in case.get("seeded", {})}, "again" in case["flags"])
    kinds_needed = {case["tasks"][x]["kind"] for x in need}
    pars = [x for x in need if case["tasks"][x].get("par")]
    seqs = [x for x in need if case["tasks"][x]["kind"] in graph.PROC_KINDS and not case["tasks"][x].get("par")]
    leaves_par = [x for x in pars if not [d for d in model.dep_indices(case, x) if d in need]]
    if max_running >= 2 and seqs:
        labels.append("sequential_ready_while_parallel_inflight")
    if max_running >= 2 and (kinds_needed & {"group", "combine"}):
        labels.append("sync_step_with_parallel_tasks")
    if len(leaves_par) > J >= 2:
        labels.append("more_ready_than_slots")
    nontrivial = J >= 2 and max_running >= 2 and reused
    seen, uv = set(), []
    for s in v:
        if s not in seen:
            seen.add(s)
            uv.append(s)
    summ = obs.brief()
    summ["jobs"] = case["jobs"]
    return Outcome(uv, sorted(set(labels)), nontrivial, summ)
