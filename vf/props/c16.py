"""C16 — an interrupt stops all running tasks and records nothing unfinished."""
import os
import signal

from hypothesis import strategies as st

from .. import graph, model, projgen, reallayer
from ..runner import Outcome

ID = "C16"
LEVEL = "fault_enumeration"
RULE = ("Graph cases (JOBS>=2 biased, experiments, teed and slot modes) x schedule tapes x SIGINT/SIGTERM x injection "
        "point = the k-th executed Python line of src/conductor/** or of subprocess.py (inside the Popen constructor) in the main thread while Conductor's own signal "
        "handler is installed (sys.settrace calls the registered handler at that line, honouring the signal mask). "
        "Quick: k drawn by Hypothesis for generated scenarios + a stride sweep over every 3rd line of 3 fixed "
        "scenarios; thorough: every line of the fixed scenarios and of generated ones. Non-trivial = at the injection "
        "some task process was running (started, not exited) or had exited but its completion was not yet processed. "
        "Distinct = SHA-1 of (case, k, signal)."
        " One generated case in 12 (label real_processes) is a REAL interrupt: real bash tasks that sleep 0-1.5 s, and a real SIGINT/SIGTERM sent "
        "to the cond process a generated 0-100 ms after the n-th line of the shared O_APPEND log (Conductor's prints, task start/end/"
        "TERM-trap lines) has appeared; such a signal lands wherever the main thread happens to be, also inside C calls. Judged there: no "
        "task outlives cond (no task end line after cond has returned), non-zero exit with the abort diagnostic unless the whole run had "
        "already completed, no version row for a task that did not finish; non-trivial = a task process was running when the signal was sent.")
ASSUMPTIONS = ["granularity is one Python line of conductor code or of subprocess.py; signals landing inside C calls or inside other "
               "standard-library modules are represented by the line that made the call",
               "a SIGTERMed virtual child dies at once",
               "interrupt window = from the entry of ExecutionPlanner.create_plan_for to the return of Executor.run_plan "
               "(before it nothing has been started; after it Conductor is only printing its result)",
               "'Exception ignored in ...' notes that CPython prints for exceptions inside __del__ are not counted as an internal error"]
ESSENTIAL = ["inflight_at_injection", "two_inflight", "second_signal_in_terminate_processes", "in_start_execution", "in_wait", "in_finish_execution",
             "in_sigchld_handler", "during_planning", "in_launch_after_start_execution", "SIGINT", "SIGTERM"]
TECHNIQUE = "fault injection enumeration: every executed line as an interrupt point (sys.settrace) under a virtual kernel; Hypothesis generates the scenarios; one generated case in 12 sends a real SIGINT/SIGTERM to a run with real task processes"
LEVEL_TEXT = ("Enumerates interrupt points at Python-line granularity for fixed scenarios (every line in thorough, stride in "
              "quick) and samples them for Hypothesis-generated scenarios; each injected run is judged on SIGTERM coverage of "
              "live children, exit status/diagnostic and index rows.")
LEVEL_NOTE = "Trusted: sys.settrace line events as the set of interrupt points; vf/kernel.py kill log."

WINDOW = ["create_plan_for", "run_plan"]
# interrupt points: every executed line of Conductor's code AND of subprocess.py (the Popen constructor forks the task long
# before it returns: a signal handled in between meets a child that exists but that no Conductor variable refers to yet)
import subprocess as _subprocess
FILES = [os.path.join(os.path.realpath(os.environ.get("VERIF_REPO", "/repo")), "src", "conductor"),
         os.path.realpath(_subprocess.__file__)]
ABORT_MSG = "Conductor's execution has been aborted by the user."

FIXED = [
    # 0: two parallel experiments + a dependent command, -j2
    {"pkgs": ["", "a"], "tasks": [
        {"pkg": 0, "name": "top", "kind": "cmd", "deps": [[1, "rel"], [2, "abs"]], "par": False},
        {"pkg": 0, "name": "e1", "kind": "exp", "deps": [[3, "abs"]], "par": True},
        {"pkg": 1, "name": "e2", "kind": "exp", "deps": [[3, "rel"]], "par": True},
        {"pkg": 1, "name": "base", "kind": "cmd", "deps": [], "par": True}],
     "target": 0, "seeded": {}, "jobs": 2, "flags": [], "outcomes": {}, "tape": [0, 0, 0, 0, 0, 0, 4], "foreign": 0},
    # 1: sequential teed experiments with a cached one and a combine
    {"pkgs": [""], "tasks": [
        {"pkg": 0, "name": "all", "kind": "combine", "deps": [[1, "rel"], [2, "rel"]]},
        {"pkg": 0, "name": "x1", "kind": "exp", "deps": [], "par": False, "args": ["a", 1], "opts": [["k", True]]},
        {"pkg": 0, "name": "x2", "kind": "exp", "deps": [[3, "rel"]], "par": False},
        {"pkg": 0, "name": "x3", "kind": "exp", "deps": [], "par": False}],
     "target": 0, "seeded": {"3": [100]}, "jobs": None, "flags": [], "outcomes": {}, "tape": [], "foreign": 0},
    # 2: three parallel tasks, one fails, exits coalesced, -j3
    {"pkgs": ["", "p/q"], "tasks": [
        {"pkg": 0, "name": "g", "kind": "group", "deps": [[1, "abs"], [2, "abs"], [3, "rel"]]},
        {"pkg": 1, "name": "u1", "kind": "exp", "deps": [], "par": True},
        {"pkg": 1, "name": "u2", "kind": "exp", "deps": [], "par": True},
        {"pkg": 0, "name": "u3", "kind": "cmd", "deps": [], "par": True}],
     "target": 0, "seeded": {}, "jobs": 3, "flags": [], "outcomes": {"2": {"exit": 7}}, "tape": [0, 0, 0, 6, 0, 0], "foreign": 1},
]


@st.composite
def _strategy(draw, tier):
    case = draw(graph.graph_case(max_tasks=6 if tier == "quick" else 8, outcomes="some", max_bad=1,
                                 kind_weights=(2, 4, 1, 1), p_par=0.75, p_seed_den=6,
                                 jobs=(None, 1, 2, 2, 3, 3), tape_max=30, flags=("again",)))
    case["sig"] = draw(st.sampled_from([int(signal.SIGINT), int(signal.SIGTERM)]))
    case["kfrac"] = draw(st.sampled_from(range(10000)))
    # a second signal (an impatient second Ctrl-C) this many executed lines after the first
    case["at2"] = draw(st.sampled_from([None, None] + list(range(1, 41))))
    return case


def strategy(tier):
    real = st.one_of(reallayer.real_case(signal_mode=True, flags=("again",), jobs=(None, 1, 2, 2, 3, 3, 4)),
                     reallayer.real_case(signal_mode=True, layered=True, outcomes="none"))
    return reallayer.mixed(_strategy(tier), real, share=12)


def examples(tier):
    return 1600 if tier == "quick" else 40000


_N_CACHE = {}


def count_lines(case):
    res = graph.run_graph_case(case, inject={"mode": "count", "only_in": WINDOW, "files": FILES})
    return res.get("lines", 0)


def enumerate_cases(tier, w, nworkers):
    stride = 3 if tier == "quick" else 1
    idx = 0
    for si, sc in enumerate(FIXED):
        n = count_lines(sc)
        for sig in (int(signal.SIGINT), int(signal.SIGTERM)):
            for k in range(1 + (si + sig) % stride, n + 1, stride):
                if idx % nworkers == w:
                    c = dict(sc)
                    c["sig"] = sig
                    c["k"] = k
                    c["fixed"] = si
                    yield c
                    # second signal: one offset per point in quick, every offset 1..40 at every 4th point in thorough
                    if tier == "quick":
                        offs = [1 + (k * 7 + si) % 40]
                    else:
                        offs = range(1, 41) if k % 4 == 0 else [1 + (k * 7 + si) % 40]
                    for o in offs:
                        c2 = dict(c)
                        c2["at2"] = o
                        yield c2
                idx += 1


def check_real(case, res):
    """A real signal sent to a real `cond run` with real task processes (vf/reallayer.py)."""
    obs = graph.Obs(case, res)
    plan = case["sigplan"]
    info = res.get("real", {})
    labels = ["real_processes", "SIGINT" if plan["sig"] == signal.SIGINT else "SIGTERM"]
    summ = obs.brief()
    summ["sigplan"] = plan
    summ["real"] = {k: v for k, v in info.items() if k != "pid"}
    v = []
    if res["status"] == "deadlock":
        return Outcome([("deadlock_after_abort", res.get("detail"))], labels, True, summ)
    if not info.get("signal_sent"):
        return Outcome([], labels + ["real_cond_finished_before_the_signal"], False, summ)
    if res.get("died_by_default"):
        return Outcome([("signal_never_deliverable", "a real signal sent after Conductor had started printing its run met the "
                         "default disposition: cond died without terminating its tasks")], labels, True, summ)
    running = info.get("running_at_signal", [])
    if running:
        labels.append("real_inflight_at_signal")
    if len(running) >= 2:
        labels.append("real_two_inflight_at_signal")
    if info.get("second_signal_sent"):
        labels.append("real_second_signal")
    # (a) nobody outlives cond
    for pid in res["kernel"]["running_at_end"]:
        p = obs.procs.get(pid)
        v.append(("not_terminated_real", "%s (pid %d) went on running after cond run had exited: it was never sent SIGTERM "
                  "(real %s, %d task(s) running when it was sent)" % (p["task"] if p else "?", pid, labels[1], len(running))))
    # (b) exit status / diagnostic
    rep = model.parse_report(obs.stdout())
    stderr = obs.stderr()
    if res.get("uncaught") == "ConductorAbort":
        labels.append("real_signal_after_main")        # handled outside Conductor's main(): nothing to judge
    elif res.get("uncaught"):
        v.append(("internal_error:%s_real" % res["uncaught"], "a real %s ended in an internal error: %s"
                  % (labels[1], res["uncaught_tb"].strip().splitlines()[-1])))
    elif res["status"] == 0:
        if rep["done"]:
            labels.append("real_signal_after_completion")   # (a real run cannot tell where the signal landed)
        else:
            v.append(("exit_zero_real", "a real %s was sent while tasks were outstanding, cond run exited 0 without having completed" % labels[1]))
    elif ABORT_MSG not in stderr:
        v.append(("no_abort_message_real", "non-zero exit without the abort diagnostic after a real %s; stderr=%r" % (labels[1], stderr[-200:])))
    else:
        labels.append("real_aborted")
    # (c) rows only for tasks that finished by themselves with status 0
    ok_tasks = {p["task"] for p in obs.procs.values() if p["status"] == 0}
    new_rows = {r[0] for r in set(res["rows_after"]) - set(res["rows_before"])}
    for t in sorted(new_rows - ok_tasks):
        v.append(("row_for_unfinished_task_real", "version recorded for %s which had not exited 0" % t))
    return Outcome(v, sorted(set(labels)), bool(running), summ)


def run_case(case):
    if case.get("layer") == "real":
        return check_real(case, reallayer.run_real(case))
    base = {k: v for k, v in case.items() if k not in ("sig", "k", "kfrac", "fixed", "at2")}
    if "k" in case:
        k = case["k"]
    else:
        n = count_lines(base)
        if n <= 0:
            return Outcome([], ["no_lines"], False, None)
        k = 1 + case["kfrac"] * n // 10000
    inject = {"mode": "abort", "at": k, "sig": case["sig"], "only_in": WINDOW, "files": FILES}
    if case.get("at2"):
        inject["at2"] = case["at2"]
    res = graph.run_graph_case(base, inject=inject)
    return check(base, res, k, case["sig"])


def check(case, res, k, sig):
    obs = graph.Obs(case, res)
    v = []
    labels = ["SIGINT" if sig == signal.SIGINT else "SIGTERM"]
    inj = res.get("inject")
    summ = obs.brief()
    summ["k"] = k
    if res["status"] in ("deadlock", "livelock"):
        v.append(("deadlock_after_abort" if inj else "deadlock", "run never returns (%s)" % res.get("detail")))
        return Outcome(v, labels, True, summ)
    if inj is None:
        if res.get("outside_window"):
            return Outcome([], labels + ["outside_window"], False, summ)
        if k <= res.get("lines", 0):
            v.append(("signal_never_deliverable", "no Conductor signal handler was installed from line %d on; SIGINT/SIGTERM "
                      "would kill cond run with the default action" % k))
        return Outcome(v, labels + ["not_fired"], False, summ)
    summ["at"] = "%s:%s %s" % (inj["file"], inj["line"], inj["func"])
    funcs = [f[2] for f in inj["stack"]]
    files = [f[0] for f in inj["stack"]]
    in_del = "__del__" in funcs
    inj2 = res.get("inject2")
    if inj2 is not None:
        summ["second_at"] = "%s:%s %s (%s)" % (inj2["file"], inj2["line"], inj2["func"], inj2["disposition"])
        labels.append("second_signal_" + inj2["disposition"])
        f2 = [f[2] for f in inj2["stack"]]
        if "terminate_processes" in f2:
            labels.append("second_signal_in_terminate_processes")
    if "start_execution" in funcs:
        labels.append("in_start_execution")
    elif "_launch_ops_if_able" in funcs and inj["func"] in ("_launch_ops_if_able", "add_op"):
        labels.append("in_launch_after_start_execution")
    if "wait" in funcs or "wait_for_next_op" in funcs:
        labels.append("in_wait")
    if "finish_execution" in funcs:
        labels.append("in_finish_execution")
    if "_handler" in funcs:
        labels.append("in_sigchld_handler")
    if "create_plan_for" in funcs:
        labels.append("during_planning")
    if "run_plan" not in funcs and "create_plan_for" not in funcs:
        labels.append("outside_plan_and_run")
    if in_del:
        labels.append("in___del__")
    if any(e.get("watchdog") for e in obs.events if e["e"] == "exit"):
        labels.append("watchdog_fired")
    ev_idx = inj.get("event_idx", 0)
    running = inj.get("running", [])
    live = inj.get("live", [])
    if running:
        labels.append("inflight_at_injection")
    if len(running) >= 2:
        labels.append("two_inflight")
    unprocessed = [pid for pid in live if pid not in running]
    if unprocessed:
        labels.append("exited_unreaped_at_injection")
    via_popen = "subprocess.py" in files
    suffix = ""
    if in_del:
        suffix = "_in___del__"
    elif inj2 is not None and inj2["disposition"] != "ignored":
        suffix = "_second_signal"
    elif via_popen:
        suffix = "_inside_popen_constructor"

    # (a) every running child gets SIGTERM (or ends by itself) after the injection; nothing is spawned afterwards
    for pid in running:
        p = obs.procs.get(pid)
        if p is None:
            continue
        killed = [kk for kk in obs.kills if kk[1] == pid and kk[2] == signal.SIGTERM and kk[0] >= ev_idx]
        ended = (p["exit"] is not None and p["exit"] >= ev_idx
                 and not obs.events[p["exit"]].get("watchdog"))
        if not killed and not ended:
            v.append(("not_terminated" + suffix, "%s (pid %d) was running when the signal arrived at %s and never got SIGTERM"
                      % (p["task"], pid, summ["at"])))
    late = [e["task"] for i, e in enumerate(obs.events) if i >= ev_idx and e["e"] == "spawn"]
    for t in late:
        # a spawn right at the injection line is fine only if it is then terminated
        pids = [pid for pid, p in obs.procs.items() if p["task"] == t and p["spawn"] >= ev_idx]
        for pid in pids:
            p = obs.procs[pid]
            killed = [kk for kk in obs.kills if kk[1] == pid and kk[2] == signal.SIGTERM]
            if not killed and p["exit"] is None:
                v.append(("spawned_after_abort_not_terminated" + suffix, "%s was started after the signal and left running" % t))
            else:
                # the statement demands that whatever was started is stopped, not that nothing is started any more
                # (a launch that is under way when the signal arrives may complete and is then terminated)
                labels.append("launch_completed_after_signal_then_terminated")
    if res.get("kernel", {}).get("running_at_end") and not any(s.startswith("not_terminated") or s.startswith("spawned_after") for s, _ in v):
        v.append(("running_at_return" + suffix, "task processes still running after cond run returned"))
    # (b) exit status and diagnostic
    stderr = obs.stderr()
    if res.get("uncaught"):
        v.append(("internal_error:%s%s" % (res["uncaught"], suffix), "abort at %s ended in an internal error: %s"
                  % (summ["at"], res["uncaught_tb"].strip().splitlines()[-1])))
    else:
        if res["status"] == 0:
            v.append(("exit_zero" + suffix, "signal at %s but cond run exited 0" % summ["at"]))
        elif ABORT_MSG not in stderr:
            v.append(("no_abort_message" + suffix, "non-zero exit without the abort diagnostic; stderr=%r" % stderr[-200:]))
    # (c) rows only for tasks that exited 0
    ok_tasks = {p["task"] for p in obs.procs.values() if p["status"] == 0}
    new_rows = {r[0] for r in set(res["rows_after"]) - set(res["rows_before"])}
    for t in sorted(new_rows - ok_tasks):
        v.append(("row_for_unfinished_task", "version recorded for %s which had not exited 0" % t))
    nontrivial = bool(running or unprocessed)
    return Outcome(v, sorted(set(labels)), nontrivial, summ)
