"""C14 — dependency graphs are validated soundly before anything runs."""
import itertools
import os
import pathlib

from hypothesis import strategies as st

from .. import projgen
from ..runner import Outcome

ID = "C14"
LEVEL = "exploration"
RULE = ("(enumerated) every directed graph on n<=3 labelled tasks incl. self-loops, with ALL permutations of every dep "
        "list and T = every node; all 65,536 graphs on n=4 (quick: every 53rd) with T=0 under identity/reversed/rotated "
        "listing orders; each graph laid out over 1-3 COND files with mixed ':name' / '//pkg:name' spelling derived "
        "from the graph number; plus dangling variants (one task definition deleted, or its whole COND file removed) "
        "and duplicate-dependency variants (same or other spelling). Each case is judged through "
        "TaskIndex.load_transitive_closure and whole-project validate_all_loaded_tasks; every 40th also through the "
        "CLI (cond run --check / cond run under the virtual kernel: exit status, ERROR line, zero spawns). "
        "(generated) Hypothesis graphs with 5-7 nodes. Non-trivial = some task reachable by >=2 paths, or a cycle/"
        "dangling edge/duplicate that is NOT reachable from T (must be ignored), or an error reachable only through a "
        "shared dependency. Counted per evaluated (graph, listing, T, variant); all distinct by construction.")
ASSUMPTIONS = ["when several error classes apply to the reachable part, any one of them may be reported",
               "whole-project validation is exercised through TaskIndex.load_all_tasks_in_cond_file + "
               "validate_all_loaded_tasks (the explorer route itself cannot be imported in this checkout)"]
ESSENTIAL = ["accepted", "cycle", "not_found", "missing_file", "dup", "error_unreachable_ignored", "self_loop",
             "two_paths", "multi_file", "cli_sample", "whole_project_roots", "generated_5to7", "same_relative_string_in_two_files"]
EXHAUSTIVE = {"quick": "all digraphs n<=3 x all dep-list permutations x every T x variants",
              "thorough": "all digraphs n<=3 x all dep-list permutations x every T x variants, and all digraphs n=4 (T=0, 3 listing orders) x variants"}
TECHNIQUE = "exhaustive small-scope enumeration of dependency graphs x listing orders against a reachability model; Hypothesis for larger graphs"
LEVEL_TEXT = ("Exhaustive inside the stated scope (every digraph up to 3 nodes with every listing order; n=4 in thorough), "
              "random beyond; oracle is an independent reachability/cycle/duplicate model.")
LEVEL_NOTE = "Trusted: the reachability model in this file."

PKGS = ["", "p", "p/q"]
_LAST_BAD = [None]


def _names(n, files=None, shared=False):
    """Task names: project-wide unique (t0, t1, ...) or, with `shared`, numbered per COND file, so that the same name -
    and the same relative dependency string ':s0' - occurs in several files and means a different task in each."""
    if not shared or files is None:
        return ["t%d" % i for i in range(n)]
    seen = {}
    out = []
    for i in range(n):
        out.append("s%d" % seen.get(files[i], 0))
        seen[files[i]] = seen.get(files[i], 0) + 1
    return out


def layout(gid, n):
    """Deterministic pseudo-random layout derived from the graph number."""
    h = (gid * 2654435761 + n * 40503) & 0xFFFFFFFF
    files = [(h >> (2 * i)) % 3 for i in range(n)]
    if gid % 3 == 0:
        files = [0] * n
    spell = (h >> 11) & 0xFFFF
    return files, spell


def write_case(root, case):
    n = case["n"]
    files = case["files"]
    names = _names(n, files, case.get("shared_names"))
    variant = case.get("variant")
    undefined = set()
    missing_pkgs = set()
    if variant:
        if variant[0] == "undef":
            undefined.add(variant[1])
        elif variant[0] == "nofile":
            missing_pkgs.add(files[variant[1]])
    with open(os.path.join(root, "cond_config.toml"), "w") as f:
        f.write("disable_git = true\n")
    by_pkg = {}
    for i in range(n):
        by_pkg.setdefault(files[i], []).append(i)
    bit = 0
    for p in sorted(set(files)):
        if p in missing_pkgs:
            continue
        d = os.path.join(root, PKGS[p])
        os.makedirs(d, exist_ok=True)
        lines = []
        for i in by_pkg[p]:
            if i in undefined:
                continue
            deps = []
            for pos, j in enumerate(case["adj"][i]):
                rel = files[j] == files[i] and ((case["spell"] >> ((i * 4 + pos) % 16)) & 1)
                deps.append(":" + names[j] if rel else "//%s:%s" % (PKGS[files[j]], names[j]))
            if variant and variant[0] == "dup" and variant[1] == i and case["adj"][i]:
                j = case["adj"][i][variant[2] % len(case["adj"][i])]
                other = variant[3] and files[j] == files[i]
                deps.append(":" + names[j] if other else "//%s:%s" % (PKGS[files[j]], names[j]))
            lines.append("run_command(name=%r, run='true', deps=%r)\n" % (names[i], deps))
        with open(os.path.join(d, "COND"), "w") as f:
            f.writelines(lines)
    return undefined, missing_pkgs


def tid(case, i):
    return "//%s:%s" % (PKGS[case["files"][i]], _names(case["n"], case["files"], case.get("shared_names"))[i])


def expectation(case):
    n, adj, files = case["n"], case["adj"], case["files"]
    variant = case.get("variant")
    undefined, missing = set(), set()
    dup_node = None
    if variant:
        if variant[0] == "undef":
            undefined.add(variant[1])
        elif variant[0] == "nofile":
            missing.add(files[variant[1]])
        elif variant[0] == "dup" and adj[variant[1]]:
            dup_node = variant[1]
    defined = {i for i in range(n) if i not in undefined and files[i] not in missing}

    def classes_from(start_nodes):
        R, stack = set(), list(start_nodes)
        while stack:
            x = stack.pop()
            if x in R or x not in defined:
                continue
            R.add(x)
            stack.extend(adj[x])
        cl = set()
        for x in R:
            for d in adj[x]:
                if d not in defined:
                    cl.add("missing_file" if files[d] in missing else "not_found")
            if x == dup_node:
                cl.add("dup")
        # cycle within R
        for x in R:
            seen, st_ = set(), [d for d in adj[x] if d in defined]
            while st_:
                y = st_.pop()
                if y == x:
                    cl.add("cycle")
                    break
                if y in seen:
                    continue
                seen.add(y)
                st_.extend(d for d in adj[y] if d in defined)
        return R, cl

    return defined, classes_from


_ERR = {"CyclicDependency": "cycle", "TaskNotFound": "not_found", "MissingCondFile": "missing_file",
        "DuplicateDependency": "dup"}


def eval_single(case, cli=False):
    """Returns (violations, labels, nontrivial)."""
    from conductor.parsing.task_index import TaskIndex
    from conductor.task_identifier import TaskIdentifier
    from conductor.errors import ConductorError
    v, labels = [], []
    n, adj, T = case["n"], case["adj"], case["T"]
    root = projgen.new_scratch("c14")
    try:
        write_case(root, case)
        defined, classes_from = expectation(case)
        if T not in defined:
            return [], ["T_undefined_skipped"], False
        R, want = classes_from([T])
        ti = TaskIndex(pathlib.Path(root))
        try:
            ti.load_transitive_closure(TaskIdentifier.from_str(tid(case, T)))
            got = None
        except ConductorError as ex:
            got = _ERR.get(type(ex).__name__, type(ex).__name__)
        except Exception as ex:  # noqa
            got = "internal:" + type(ex).__name__
        desc = "graph %s T=t%d files=%s variant=%s" % (adj, T, case["files"], case.get("variant"))
        if not want:
            labels.append("accepted")
            if got is not None:
                v.append(("rejects_valid_graph:" + str(got), "%s: acyclic, complete, duplicate-free closure rejected with %s" % (desc, got)))
        else:
            labels += sorted(want)
            if got is None:
                v.append(("accepts_invalid_graph:" + "+".join(sorted(want)), "%s: accepted although the closure has %s" % (desc, sorted(want))))
            elif got not in want:
                v.append(("wrong_error_class", "%s: reported %s, applicable: %s" % (desc, got, sorted(want))))
        # labels
        allR, allwant = classes_from(range(n))
        if allwant - want:
            labels.append("error_unreachable_ignored")
        if any(i in adj[i] for i in range(n)):
            labels.append("self_loop")
        indeg = {}
        for x in R:
            for d in set(adj[x]):
                indeg[d] = indeg.get(d, 0) + 1
        two_paths = any(c >= 2 for c in indeg.values())
        if two_paths:
            labels.append("two_paths")
        if len(set(case["files"])) > 1:
            labels.append("multi_file")
            if case.get("shared_names"):
                labels.append("same_relative_string_in_two_files")
        # whole-project validation
        variant = case.get("variant")
        if case.get("whole", True):
            ti2 = TaskIndex(pathlib.Path(root))
            files_present = sorted({case["files"][i] for i in range(n)} - ({case["files"][variant[1]]} if variant and variant[0] == "nofile" else set()))
            if case.get("file_order_rev"):
                files_present.reverse()
            try:
                for p in files_present:
                    ti2.load_all_tasks_in_cond_file(pathlib.Path(PKGS[p], "COND"))
                roots = {str(r) for r in ti2.validate_all_loaded_tasks()}
                gotw = None
            except ConductorError as ex:
                gotw = _ERR.get(type(ex).__name__, type(ex).__name__)
            except Exception as ex:  # noqa
                gotw = "internal:" + type(ex).__name__
            if not allwant:
                dd = set()
                for x in defined:
                    dd.update(adj[x])
                want_roots = {tid(case, i) for i in defined if i not in dd}
                if gotw is not None:
                    v.append(("whole_project_rejects_valid:" + str(gotw), "%s: whole-project validation rejected a valid project with %s" % (desc, gotw)))
                elif roots != want_roots:
                    v.append(("whole_project_roots", "%s: roots %s, tasks nobody depends on: %s" % (desc, sorted(roots), sorted(want_roots))))
                labels.append("whole_project_roots")
            else:
                if gotw is None:
                    v.append(("whole_project_accepts_invalid:" + "+".join(sorted(allwant)), "%s: whole-project validation accepted a project with %s" % (desc, sorted(allwant))))
                elif gotw.startswith("internal"):
                    v.append(("whole_project_internal_error", "%s: %s" % (desc, gotw)))
        if cli:
            from ..isolate import run_cond
            labels.append("cli_sample")
            for argv in (["run", "--check", tid(case, T)], ["run", tid(case, T)]):
                res = run_cond(root, argv, kspec={"clock": 1000.0})
                spawns = [e for e in res["events"] if e["e"] == "spawn"]
                err = res["stderr"].decode("utf-8", "replace")
                if want:
                    if res["status"] != 1 or "ERROR:" not in err or "Traceback" in err:
                        v.append(("cli_not_clean_rejection", "%s: cond %s -> status %r stderr %r" % (desc, " ".join(argv), res["status"], err[-200:])))
                    if spawns:
                        v.append(("cli_executed_despite_error", "%s: cond %s spawned %d task(s) although validation fails" % (desc, " ".join(argv), len(spawns))))
                else:
                    if res["status"] != 0:
                        v.append(("cli_rejects_valid", "%s: cond %s -> status %r %r" % (desc, " ".join(argv), res["status"], err[-200:])))
                    if "--check" in argv and spawns:
                        v.append(("check_executed_tasks", "%s: --check spawned tasks" % desc))
                    if "--check" not in argv and {e["task"] for e in spawns} != {tid(case, i) for i in R}:
                        v.append(("cli_wrong_spawn_set", "%s: spawned %s" % (desc, sorted(e["task"] for e in spawns))))
                if "--check" in argv and any(".task" in nme for _, dirs, _ in os.walk(os.path.join(root, "cond-out")) for nme in dirs):
                    v.append(("check_created_output", "%s: --check created a task output directory" % desc))
        nontrivial = two_paths or "error_unreachable_ignored" in labels
        return v, labels, nontrivial
    finally:
        projgen.rm(root)


def graphs(n):
    for gid in range(1 << (n * n)):
        adj = [[j for j in range(n) if (gid >> (i * n + j)) & 1] for i in range(n)]
        yield gid, adj


def variants_for(gid, n, adj):
    out = [None]
    k = gid % n
    out.append(["undef", k])
    if gid % 2 == 0:
        out.append(["nofile", (k + 1) % n])
    cand = [i for i in range(n) if adj[i]]
    if cand:
        i = cand[gid % len(cand)]
        out.append(["dup", i, gid // 3, gid % 2])
    return out


def enumerate_cases(tier, w, nworkers):
    # batches: (n, lo, hi) ranges of graph numbers
    batches = []
    for n in (1, 2, 3):
        total = 1 << (n * n)
        step = max(1, total // 64)
        for lo in range(0, total, step):
            batches.append({"batch": [n, lo, min(total, lo + step)], "perms": "all"})
    total = 1 << 16
    step = 256
    for lo in range(0, total, step):
        batches.append({"batch": [4, lo, lo + step], "perms": "three", "stride": 53 if tier == "quick" else 1})
    for i, b in enumerate(batches):
        if i % nworkers == w:
            yield b


def run_batch(case):
    n, lo, hi = case["batch"]
    v, labels = [], {}
    evals = nt = 0
    counter = 0
    stride = case.get("stride", 1)
    for gid in range(lo, hi):
        if stride > 1 and gid % stride != 0:
            continue
        adj0 = [[j for j in range(n) if (gid >> (i * n + j)) & 1] for i in range(n)]
        files, spell = layout(gid, n)
        if case["perms"] == "all":
            orders = itertools.product(*[list(itertools.permutations(a)) for a in adj0])
            Ts = range(n)
        else:
            rot = [a[1:] + a[:1] for a in adj0]
            orders = [tuple(tuple(a) for a in adj0), tuple(tuple(reversed(a)) for a in adj0), tuple(tuple(a) for a in rot)]
            orders = list(dict.fromkeys(orders))
            Ts = [0]
        for order in orders:
            adj = [list(a) for a in order]
            for T in Ts:
                for variant in variants_for(gid, n, adj):
                    counter += 1
                    sub = {"n": n, "adj": adj, "T": T, "files": files, "spell": spell, "variant": variant,
                           "file_order_rev": bool(gid & 1), "shared_names": counter % 3 == 0 and len(set(files)) > 1}
                    vv, lb, ntv = eval_single(sub, cli=(counter % 40 == 0))
                    evals += 1
                    nt += 1 if ntv else 0
                    for l in lb:
                        labels[l] = labels.get(l, 0) + 1
                    if vv:
                        v += vv
                        if _LAST_BAD[0] is None:
                            _LAST_BAD[0] = sub
                        if len(v) > 10:
                            break
                if len(v) > 10:
                    break
            if len(v) > 10:
                break
        if len(v) > 10:
            break
    seen, uv = set(), []
    for sig, text in v:
        if sig not in seen:
            seen.add(sig)
            uv.append((sig, text))
    oc = Outcome(uv, sorted(labels), False, {"batch": case["batch"], "evaluated": evals})
    oc.evals = evals
    oc.nontrivial_n = nt
    oc.label_counts = labels
    return oc


def minimize(case, fresh, judge):
    sub = _LAST_BAD[0]
    if "batch" in case and sub is not None:
        return sub, fresh
    return case, fresh


@st.composite
def _gen(draw, tier):
    n = draw(st.sampled_from([5, 6, 7]))
    adj = []
    for i in range(n):
        mask = draw(st.sampled_from(range(1 << n)))
        if draw(st.sampled_from([0, 0, 1])) == 0:
            mask &= draw(st.sampled_from(range(1 << n)))  # sparser
        if draw(st.sampled_from([0, 1, 1])) == 1:
            mask &= ~((1 << (i + 1)) - 1)  # forward edges only: acyclic rows
        deps = [j for j in range(n) if (mask >> j) & 1]
        if len(deps) > 1:
            deps = list(draw(st.permutations(deps)))
        adj.append(deps)
    files = [draw(st.sampled_from([0, 1, 2])) for _ in range(n)]
    variant = draw(st.sampled_from([None, None, ["undef", draw(st.sampled_from(range(n)))],
                                    ["nofile", draw(st.sampled_from(range(n)))],
                                    ["dup", draw(st.sampled_from(range(n))), draw(st.sampled_from(range(7))), draw(st.sampled_from([0, 1]))]]))
    return {"n": n, "adj": adj, "T": draw(st.sampled_from(range(n))), "files": files,
            "spell": draw(st.sampled_from(range(1 << 16))), "variant": variant,
            "file_order_rev": draw(st.booleans()), "cli": draw(st.sampled_from([False] * 9 + [True])),
            "shared_names": draw(st.sampled_from([False, True]))}


def strategy(tier):
    return _gen(tier)


def examples(tier):
    return 4000 if tier == "quick" else 50000


def run_case(case):
    if "batch" in case:
        return run_batch(case)
    v, labels, nt = eval_single(case, cli=bool(case.get("cli")))
    if case["n"] >= 5:
        labels.append("generated_5to7")
    return Outcome(v, labels, nt, {"adj": case["adj"], "T": case["T"], "variant": case.get("variant")})


def account(extra, case, oc):
    pass
