"""C07 — task environment contract and a consistent dependency snapshot."""
import glob
import json
import os
import pathlib
import re
import shutil

from hypothesis import strategies as st

from .. import graph, model, projgen
from ..isolate import run_cond, call_in_child
from ..runner import Outcome

ID = "C07"
LEVEL = "exploration"
RULE = ("Hypothesis-generated graph cases over nested packages (depth 0-3) with all four task kinds, args lists of str/bool/int/"
        "float and ordered options dicts, deps in any listing order, histories of 1-3 invocations (first run, cached re-run, "
        "--again, a failing experiment retried). Layer A (virtual kernel, arbitrary printable strings): exact /bin/bash -c "
        "<string>, cwd and environment at the fork/exec boundary; conductor.lib functions evaluated in a forked child whose "
        "environment is the recorded one. Layer B (~20% of cases, shell-inert tokens): real bash ./probe.sh records pwd -P, "
        "\"$@\", COND_*; one task also runs a real python probe importing conductor.lib. Oracle = contract computed by the model "
        "(declared order; each dep's directory = the COND_OUT it received in this invocation if it ran, else the directory of its "
        "newest recorded version). Non-trivial = a task with >=2 deps of different kinds, or a dep shared by >=2 dependents, or a "
        "dependent that sees a cached version. Distinct = SHA-1 of case JSON."
        " Also generated: Conductor started with COND_NAME/COND_OUT/COND_DEPS/COND_SLOT already set (nested `cond run`); COND files that modify the lists/dicts they passed to a constructor after the call.")
ASSUMPTIONS = ["git is disabled (C05 checks the selection rule); the cached version of an experiment is its newest recorded one",
               "args/options that travel through a real bash are shell-inert tokens; arbitrary strings are checked at the exec boundary",
               "the command string is compared after whitespace splitting (token sequence), not byte for byte"]
ESSENTIAL = ["no_deps", "group_dep_omitted", "shared_dep_two_dependents", "cached_and_fresh_mixed", "nested_pkg_depth>=2",
             "bool_and_float_args", "again", "real_bash_layer", "real_python_lib_probe", "options>=2_unsorted", "combine_dep",
             "cond_variables_in_conductors_own_environment", "arguments_modified_after_the_call"]
TECHNIQUE = "property-based testing (Hypothesis): virtual-kernel exec-boundary observation + real bash/python probes; contract model as oracle"
LEVEL_TEXT = "Randomised search over graphs, args/options and run histories; every execution's argv/cwd/env is compared with the documented contract."
LEVEL_NOTE = "Trusted: vf/kernel.py spawn records; vf/probes/probe.sh, probe.py."

PROBES = os.path.join(os.path.dirname(os.path.dirname(os.path.abspath(__file__))), "probes")
INERT = st.text(alphabet="abcXYZ019_.,:=+@%/-", min_size=1, max_size=8)
PRINTABLE = st.text(alphabet=st.characters(blacklist_categories=("Cs", "Cc"), blacklist_characters="\x00"), min_size=0, max_size=10)
KEYS = ["zeta", "alpha", "mid", "beta", "threads", "memory", "k", "n-1", "x_y"]


@st.composite
def _case(draw, tier):
    real = draw(st.sampled_from([False] * 4 + [True]))
    case = draw(graph.graph_case(max_tasks=7 if tier == "quick" else 10, outcomes="none", tape_max=10,
                                 kind_weights=(3, 3, 1, 1), flags=(), jobs=(None, 1, 2, 3), p_seed_den=4))
    case["pkgs"] = draw(st.sampled_from([[""], ["", "a"], ["", "a", "a/b"], ["a/b/c", "x"], ["", "p/q/r", "p"], ["d-1/_e", ""]]))
    for t in case["tasks"]:
        t["pkg"] = draw(st.sampled_from(range(len(case["pkgs"]))))
        if t["kind"] in graph.PROC_KINDS:
            sv = INERT if real else st.one_of(INERT, PRINTABLE)
            val = st.one_of(sv, st.booleans(), st.integers(-1000, 10 ** 12), st.sampled_from([0.5, 0.3, 1e-05, 2.0, -1.25]))
            t["args"] = draw(st.lists(val, max_size=4))
            keys = draw(st.lists(st.sampled_from(KEYS), max_size=4, unique=True))
            t["opts"] = [[k, draw(val)] for k in keys]
            t["run"] = "./probe.sh" if real else draw(st.sampled_from(["./run.sh", "python x.py", "./a.sh   -v"]))
    graph.dedupe_names(case)
    # rel deps only valid inside one package: recompute forms
    for i, t in enumerate(case["tasks"]):
        for d in t["deps"]:
            if case["tasks"][d[0]]["pkg"] != t["pkg"]:
                d[1] = "abs"
    nrun = draw(st.sampled_from([1, 2, 2, 3]))
    hist = []
    for r in range(nrun):
        fl = draw(st.sampled_from([[], [], ["again"]]))
        bad = {}
        if not real and draw(st.sampled_from(range(4))) == 0:
            exps = [i for i, t in enumerate(case["tasks"]) if t["kind"] == "exp"]
            if exps:
                bad[str(draw(st.sampled_from(exps)))] = {"exit": 9}
        hist.append({"flags": fl, "outcomes": bad})
    case["history"] = hist
    # Conductor itself started from inside a task of another run (nested `cond run`): COND_* already set
    case["outer_env"] = draw(st.sampled_from([False, False, False, True]))
    # the COND file modifies the list/dict objects it handed to the constructors after the calls
    case["mutate_after"] = draw(st.sampled_from([False] * 5 + [True]))
    case["real"] = real
    case["flags"] = []
    case["outcomes"] = {}
    case["tape"] = draw(st.lists(st.sampled_from([0] * 20 + list(range(1, 8))), max_size=12)) if not real else []
    return case


def strategy(tier):
    return _case(tier)


def examples(tier):
    return 1280 if tier == "quick" else 60000


def tok(x):
    if isinstance(x, bool):
        return "true" if x else "false"
    return str(x)


def expected_cmd(t):
    parts = [t.get("run", "./run.sh")] + [tok(a) for a in t.get("args", [])] + ["--%s=%s" % (k, tok(v)) for k, v in t.get("opts", [])]
    return " ".join(parts)


def lib_values():
    import conductor.lib as cond
    return {"out": cond.get_output_path(), "deps": cond.get_deps_paths(), "in": cond.in_output_dir("sub/file.txt"),
            "in_path": cond.in_output_dir(pathlib.Path("x.csv"))}


def run_case(case):
    root = projgen.new_scratch("c07")
    side = projgen.new_scratch("c07side")
    try:
        return _run(case, root, side)
    finally:
        projgen.rm(root)
        projgen.rm(side)


def _run(case, root, side):
    ids = projgen.idents(case)
    labels = set(graph.shape_labels(case))
    v = []
    real = case["real"]
    projgen.write_project(root, case)
    if real:
        labels.add("real_bash_layer")
        for pkg in case["pkgs"]:
            d = os.path.join(root, pkg) if pkg else root
            shutil.copy(os.path.join(PROBES, "probe.sh"), os.path.join(d, "probe.sh"))
            shutil.copy(os.path.join(PROBES, "probe.py"), os.path.join(d, "probe.py"))
    rows0 = graph.seed_case(root, case)
    newest = {}
    for t, ts, _, _ in rows0:
        newest[t] = max(newest.get(t, 0), ts)
    nontrivial = False
    summary = {"real": real, "runs": []}
    T = case["target"]
    clo = model.closure(case, T)
    pyprobe = None
    if real:
        cands = [ids[i] for i in sorted(clo) if case["tasks"][i]["kind"] in graph.PROC_KINDS]
        if cands:
            pyprobe = cands[len(cands) // 2]
    if case.get("mutate_after"):
        labels.add("arguments_modified_after_the_call")
    outer = {}
    if case.get("outer_env"):
        labels.add("cond_variables_in_conductors_own_environment")
        outer = {"COND_NAME": "outer", "COND_OUT": os.path.join(root, "cond-out", "outer.task"),
                 "COND_DEPS": os.path.join(root, "cond-out", "prep.task.7") + ":" + os.path.join(root, "elsewhere"), "COND_SLOT": "5"}
    for r, inv in enumerate(case["history"]):
        c2 = dict(case)
        c2["flags"] = inv["flags"]
        c2["outcomes"] = inv["outcomes"]
        argv = graph.argv_for(c2)
        if "again" in inv["flags"]:
            labels.add("again")
        if real:
            for f in glob.glob(os.path.join(side, "*")):
                os.unlink(f)
            env = {"VF_SIDE": side, "VF_PYPROBE": pyprobe.rpartition(":")[2] if pyprobe else "",
                   "PYTHONPATH": os.path.join(os.environ.get("VERIF_REPO", "/repo"), "src")}
            env.update(outer)
            res = run_cond(root, argv, env=env, timeout=180)
            execs = read_side(side)
        else:
            res = run_cond(root, argv, kspec=graph.kernel_spec(c2, 1000.0 + 10 * r), env=dict(outer))
            execs = []
            for e in res["events"]:
                if e["e"] == "spawn":
                    execs.append({"task": e["task"], "cwd": e["cwd"], "cmd": e["argv"][2] if len(e["argv"]) > 2 else None,
                                  "argv0": e["argv"][:2], "exe": e["exe"], "env": e["env"], "out_exists": e["out_exists"],
                                  "listing": e["listing"]})
        if res.get("uncaught") or res["status"] in ("deadlock", "livelock"):
            v.append(("run_broke", "invocation %d: %s" % (r, res.get("uncaught_tb", res["status"])[-300:])))
            break
        by_task = {}
        for ex in execs:
            by_task.setdefault(ex["task"], []).append(ex)
        out_of = {t: exs[0]["env"].get("COND_OUT") for t, exs in by_task.items()}
        dependents_seen = {}
        for ex in execs:
            t = ex["task"]
            if t not in ids:
                v.append(("unknown_task_executed", "execution of %s which is not defined" % t))
                continue
            i = ids.index(t)
            task = case["tasks"][i]
            pkg = case["pkgs"][task["pkg"]]
            what = "invocation %d, %s" % (r, t)
            env = ex["env"]
            # command
            if real:
                want_tokens = [tok(a) for a in task.get("args", [])] + ["--%s=%s" % (k, tok(x)) for k, x in task.get("opts", [])]
                if ex["args"] != want_tokens:
                    v.append(("argv", "%s: \"$@\" = %r, contract %r" % (what, ex["args"], want_tokens)))
            else:
                if ex["argv0"] != ["/bin/bash", "-c"] or ex["exe"] != ["/bin/bash"]:
                    v.append(("not_bash", "%s: executed %r via %r" % (what, ex["argv0"], ex["exe"])))
                if (ex["cmd"] or "").split() != expected_cmd(task).split():
                    v.append(("argv", "%s: command %r, contract %r" % (what, ex["cmd"], expected_cmd(task))))
            # cwd
            want_cwd = os.path.realpath(os.path.join(root, pkg))
            if os.path.realpath(ex["cwd"] or "/nonexistent") != want_cwd:
                v.append(("cwd", "%s: cwd %r, directory of its COND file is %r" % (what, ex["cwd"], want_cwd)))
            if env.get("COND_NAME") != task["name"]:
                v.append(("cond_name", "%s: COND_NAME=%r" % (what, env.get("COND_NAME"))))
            out = env.get("COND_OUT")
            base = os.path.join(root, "cond-out", pkg) if pkg else os.path.join(root, "cond-out")
            leaf_re = re.escape(task["name"]) + (r"\.task\.[1-9][0-9]*" if task["kind"] == "exp" else r"\.task")
            if not out or not os.path.isabs(out) or os.path.dirname(out) != base or not re.fullmatch(leaf_re, os.path.basename(out)):
                v.append(("cond_out_location", "%s: COND_OUT=%r, expected %s/%s" % (what, out, base, leaf_re)))
            if not ex["out_exists"]:
                v.append(("cond_out_missing", "%s: COND_OUT %r did not exist when the command started" % (what, out)))
            # COND_DEPS
            want_deps = []
            kinds_seen = set()
            for d_idx, _form in task.get("deps", []):
                dt = case["tasks"][d_idx]
                did = ids[d_idx]
                kinds_seen.add(dt["kind"])
                if dt["kind"] == "group":
                    labels.add("group_dep_omitted")
                    continue
                if dt["kind"] == "combine":
                    labels.add("combine_dep")
                if dt["kind"] == "exp":
                    if did in out_of:
                        want_deps.append(out_of[did])
                        dependents_seen.setdefault(did, set()).add(t)
                    elif did in newest:
                        want_deps.append(projgen.version_dir(root, did, newest[did]))
                        labels.add("dependent_sees_cached")
                        nontrivial = True
                    else:
                        want_deps.append("<no version of %s>" % did)
                else:
                    want_deps.append(projgen.version_dir(root, did))
                    dependents_seen.setdefault(did, set()).add(t)
            got = env.get("COND_DEPS")
            if got is None or got != ":".join(want_deps):
                v.append(("cond_deps", "%s: COND_DEPS=%r, contract %r" % (what, got, ":".join(want_deps))))
            if not want_deps:
                labels.add("no_deps")
            if len(kinds_seen) >= 2:
                nontrivial = True
            if any("<no version" not in w and ".task." in os.path.basename(w) and w not in out_of.values() for w in want_deps) and \
               any(w in out_of.values() for w in want_deps):
                labels.add("cached_and_fresh_mixed")
            if pkg.count("/") >= 1:
                labels.add("nested_pkg_depth>=2")
            a = task.get("args", [])
            if any(isinstance(x, bool) for x in a) and any(isinstance(x, float) for x in a):
                labels.add("bool_and_float_args")
            ks = [k for k, _ in task.get("opts", [])]
            if len(ks) >= 2 and ks != sorted(ks):
                labels.add("options>=2_unsorted")
            # support library
            if real:
                if "py" in ex:
                    labels.add("real_python_lib_probe")
                    check_lib(v, what, ex["py"], out, want_deps)
            elif out and len(v) < 5:
                res_lib = call_in_child(lib_values, env={k: x for k, x in env.items()})
                if res_lib[0] != "ok":
                    v.append(("lib_raised", "%s: conductor.lib raised %s" % (what, res_lib[1])))
                else:
                    lv = res_lib[1]
                    check_lib(v, what, {"get_output_path": str(lv["out"]), "get_deps_paths": [str(p) for p in lv["deps"]],
                                        "in_output_dir": str(lv["in"]),
                                        "types": [type(lv["out"]).__name__] + [type(p).__name__ for p in lv["deps"]]}, out, want_deps)
                    if str(lv["in_path"]) != os.path.join(out, "x.csv"):
                        v.append(("lib_in_output_dir", "%s: in_output_dir(Path('x.csv')) = %s" % (what, lv["in_path"])))
        for did, deps_ in dependents_seen.items():
            if len(deps_) >= 2:
                labels.add("shared_dep_two_dependents")
                nontrivial = True
        summary["runs"].append({"argv": argv, "status": res["status"], "executed": sorted(by_task),
                                "sample": ({k: execs[-1][k] for k in ("task", "cwd", "env")} if execs else None)})
        rows = projgen.read_rows(root)
        newest = {}
        for t, ts, _, _ in rows:
            newest[t] = max(newest.get(t, 0), ts)
    seen, uv = set(), []
    for s in v:
        if s[0] not in seen:
            seen.add(s[0])
            uv.append(s)
    return Outcome(uv, sorted(labels), nontrivial, summary)


def check_lib(v, what, py, out, want_deps):
    if py.get("get_output_path") != out:
        v.append(("lib_get_output_path", "%s: get_output_path() = %r, COND_OUT = %r" % (what, py.get("get_output_path"), out)))
    if py.get("get_deps_paths") != want_deps:
        v.append(("lib_get_deps_paths" + ("_empty" if not want_deps else ""), "%s: get_deps_paths() = %r, expected %r" % (what, py.get("get_deps_paths"), want_deps)))
    if py.get("in_output_dir") != os.path.join(out or "", "sub/file.txt"):
        v.append(("lib_in_output_dir", "%s: in_output_dir('sub/file.txt') = %r" % (what, py.get("in_output_dir"))))
    if any(t not in ("PosixPath", "Path") for t in py.get("types", [])):
        v.append(("lib_types", "%s: library returned %r" % (what, py.get("types"))))


def read_side(side):
    out = []
    for p in sorted(glob.glob(os.path.join(side, "*.rec")), key=os.path.getmtime):
        fields = open(p, "rb").read().split(b"\0")
        kv = list(zip(fields[0::2], fields[1::2]))
        d = {"args": [], "env": {}}
        for k, val in kv:
            k = k.decode()
            val = val.decode("utf-8", "replace")
            if k == "arg":
                d["args"].append(val)
            elif k.startswith("COND_"):
                if val != "<unset>":
                    d["env"][k] = val
            elif k == "cwd":
                d["cwd"] = val
            elif k == "out_is_dir":
                d["out_exists"] = val == "yes"
            elif k == "listing":
                d["listing"] = [x for x in val.split(",") if x]
        out_dir = d["env"].get("COND_OUT", "")
        name = d["env"].get("COND_NAME", "")
        rel = os.path.relpath(os.path.dirname(out_dir), os.path.join(os.path.dirname(side), "x")) if False else None
        d["task"] = None
        d["_out"] = out_dir
        if os.path.exists(p + ".py"):
            try:
                d["py"] = json.loads(open(p + ".py").read().strip().splitlines()[-1])
            except Exception:  # noqa
                d["py"] = {"error": open(p + ".py").read()[-300:]}
        out.append(d)
    # task identifier from COND_OUT: <root>/cond-out/<pkg>/<name>.task[.ts]
    for d in out:
        o = d["_out"]
        idx = o.find("/cond-out")
        pkg = os.path.dirname(o[idx + len("/cond-out") + 1:]) if idx >= 0 else ""
        d["task"] = "//%s:%s" % (pkg, d["env"].get("COND_NAME", "?"))
    return out
