"""C19 — run_experiment_group is exactly its documented expansion."""
import os
import pathlib

from hypothesis import strategies as st

from .. import projgen, trees
from ..isolate import run_cond
from ..runner import Outcome

ID = "C19"
LEVEL = "translation_validation"
RULE = ("Hypothesis-generated run_experiment_group definitions (0-6 instances; per-instance args/options/parallelizable present "
        "or defaulted; names incl. clashes: equal instances, instance == group name, instance == another task; deps absent/[]/"
        "several/tuple/ill-typed; chain_experiments absent/True/False; experiments as list, tuple, generator expression, absent, "
        "or containing a non-ExperimentInstance; ill-typed instance fields) plus other tasks that depend on the group or an "
        "instance. Two scratch projects differ only in that one writes the sugar and the other the documented expansion "
        "(run_experiment per instance, chained deps = deps + [':<prev>'], then combine). Both are loaded through TaskIndex and "
        "run under the virtual kernel with identical tape, clock, outcome map. Compared: accept/reject, task set, per-task "
        "type/ordered deps/args/options/parallelizable, spawn traces, stdout, rows, cond-out trees (modulo root). "
        "Non-trivial = >=2 instances and (chaining or shared deps or a name clash). Distinct = SHA-1 of case JSON. "
        "programs = number of sugar/expansion pairs; disagreements_checked = pairs for which every comparison was evaluated."
        " A quarter of the cases define the same group (same instance names) once more in a sibling package and load both files in one invocation.")
ASSUMPTIONS = ["the expansion is the one shown on website/docs/task-types/run-experiment-group.md",
               "when the expansion is undefined (an element that is not an ExperimentInstance) only clean rejection of the sugar is required",
               "ill-typed chain_experiments is not generated (documented Boolean, implemented by truthiness)"]
ESSENTIAL = ["chained>=3", "shared_deps", "dup_instance_names", "instance_equals_group_name", "experiments_absent",
             "generator_experiments", "ill_typed_field", "both_accepted", "both_rejected", "instance_clashes_other_task",
             "failure_in_chain", "non_instance_element", "same_group_in_two_packages", "instance_defaults_filled_in_afterwards", "deps_list_shared_with_a_later_task"]
TECHNIQUE = "differential / translation validation: sugar vs. documented expansion, Hypothesis-generated definitions, identical virtual-kernel schedules"
LEVEL_TEXT = ("Each generated group definition is a 'program'; its documented expansion is the reference translation. Loaded graphs and "
              "complete execution traces of both are compared. Random search over definitions, not exhaustive.")
LEVEL_NOTE = "Trusted: the expansion function in this file (from the reference page), vf/kernel.py."

INST_NAMES = ["s1", "s2", "s3", "s-4", "_5", "S6"]
ARGS_POOL = [None, "[]", "['a', 1]", "[True, 0.5]", "['x']"]
OPTS_POOL = [None, "{}", "{'threads': 2}", "{'b': 'v', 'a': True}"]
ILL_FIELD = ["args='notalist'", "options=[1]", "parallelizable='yes'", "name=5", "args=[[1]]", "options={1: 2}"]


@st.composite
def _case(draw, tier):
    n = draw(st.sampled_from([0, 1, 2, 2, 3, 3, 4, 5, 6]))
    insts = []
    clash = draw(st.sampled_from(["none"] * 12 + ["dup", "groupname", "other"]))
    for i in range(n):
        inst = {"name": INST_NAMES[i],
                "args": draw(st.sampled_from(ARGS_POOL)),
                "options": draw(st.sampled_from(OPTS_POOL)),
                "par": draw(st.sampled_from([None, "True", "False"]))}
        insts.append(inst)
    gname = "grp"
    if clash == "dup" and n >= 2:
        insts[draw(st.sampled_from(range(1, n)))]["name"] = insts[0]["name"]
    elif clash == "groupname" and n >= 1:
        insts[draw(st.sampled_from(range(n)))]["name"] = gname
    elif clash == "other" and n >= 1:
        insts[draw(st.sampled_from(range(n)))]["name"] = "base"
    ill = draw(st.sampled_from([None] * 36 + ILL_FIELD))
    if ill and n >= 1:
        insts[draw(st.sampled_from(range(n)))]["ill"] = ill
    deps = draw(st.sampled_from([None, None, "[]", "[':base']", "[':base']", "[':base', ':base2']", "[':base', ':base2']",
                                 "[':base2', ':base']", "[':base2', ':base']"] * 2 +
                                ["(':base',)", "':base'", "[1]", "[':base', ':base']", "['//p:base']"]))
    chain = draw(st.sampled_from([None, "True", "True", "False"]))
    exp_form = draw(st.sampled_from(["list"] * 10 + ["tuple", "tuple", "gen", "gen", "absent", "nonlist_elem", "none_elem"]))
    if exp_form == "absent":
        insts = []   # the documented default: experiments=[]
    # COND files are Python: an instance built with the default args/options is filled in afterwards
    # (inst.options["seed"] = 7, inst.args.append("extra")); the other instances keep their (empty) defaults
    mutate = None
    cands = [i for i, x in enumerate(insts) if "ill" not in x and (x["args"] is None or x["options"] is None)]
    if len(insts) >= 2 and cands and exp_form in ("list", "tuple", "gen") and draw(st.sampled_from([False, False, False, True])):
        j = draw(st.sampled_from(cands))
        mutate = {"j": j, "args": insts[j]["args"] is None, "options": insts[j]["options"] is None}
    # `deps` handed over in a variable that a later task of the same file uses as well (COMMON_DEPS = [...]): neither
    # the group nor its expansion may change what the later task depends on
    shared_var = deps is not None and deps.startswith("[':base'") and "':base', ':base'" not in deps and draw(st.sampled_from([False, False, True]))
    consumer = draw(st.sampled_from(["none", "group", "instance", "both"]))
    target = draw(st.sampled_from(["group", "group", "consumer" if consumer != "none" else "group", "instance" if insts else "group"]))
    pkg = draw(st.sampled_from(["", "p"]))
    outcomes = {}
    for i in range(len(insts)):
        if draw(st.sampled_from(range(7))) == 0:
            outcomes[insts[i]["name"]] = {"exit": 20 + i}
    tlen = draw(st.sampled_from([0, 0, 10, 30]))
    tape = draw(st.lists(st.sampled_from([0] * 30 + list(range(1, 16))), min_size=tlen, max_size=tlen))
    return {"pkg": pkg, "gname": gname, "insts": insts, "deps": deps, "chain": chain, "exp_form": exp_form,
            "consumer": consumer, "target": target, "jobs": draw(st.sampled_from([None, 1, 2, 3])),
            "outcomes": outcomes, "tape": tape, "again": draw(st.sampled_from([False, False, True])),
            "second_run": draw(st.sampled_from([False, False, True])),
            # the same group (same instance names) defined once more in a sibling package, both loaded by one invocation
            "twin": draw(st.sampled_from([False, False, False, True])), "mutate": mutate, "shared_var": shared_var}


def strategy(tier):
    return _case(tier)


def examples(tier):
    return 2400 if tier == "quick" else 80000


def _inst_src(inst):
    parts = []
    if inst.get("ill", "").startswith("name="):
        parts.append(inst["ill"])
    else:
        parts.append("name=%r" % inst["name"])
    for key, field in (("args", "args"), ("options", "options"), ("par", "parallelizable")):
        ill = inst.get("ill", "")
        if ill.startswith(field + "="):
            parts.append(ill)
        elif inst[key] is not None:
            parts.append("%s=%s" % (field, inst[key]))
    return "ExperimentInstance(%s)" % ", ".join(parts)


def sugar_src(case):
    insts = [_inst_src(i) for i in case["insts"]]
    form = case["exp_form"]
    if form == "nonlist_elem":
        insts.insert(len(insts) // 2, "('notaninstance', [], {}, False)")
    elif form == "none_elem":
        insts.append("None")
    parts = ["name=%r" % case["gname"], "run='./run.sh'"]
    pre = ""
    m = case.get("mutate")
    if m:
        pre = "_insts = [%s]\n" % ", ".join(insts)
        if m["options"]:
            pre += "_insts[%d].options['seed'] = 7\n" % m["j"]
        if m["args"]:
            pre += "_insts[%d].args.append('extra')\n" % m["j"]
        parts.append({"list": "experiments=_insts", "tuple": "experiments=tuple(_insts)", "gen": "experiments=(x for x in _insts)"}[form])
        form = "done"
    if form in ("list", "nonlist_elem", "none_elem"):
        parts.append("experiments=[%s]" % ", ".join(insts))
    elif form == "tuple":
        parts.append("experiments=(%s)" % "".join(x + ", " for x in insts))
    elif form == "gen":
        parts.append("experiments=(x for x in [%s])" % ", ".join(insts))
    if case["chain"] is not None:
        parts.append("chain_experiments=%s" % case["chain"])
    if case["deps"] is not None:
        parts.append("deps=%s" % ("COMMON_DEPS" if case.get("shared_var") else case["deps"]))
    if case.get("shared_var"):
        pre = "COMMON_DEPS = %s\n" % case["deps"] + pre
    return pre + "run_experiment_group(%s)\n" % ", ".join(parts) + _after(case)


def _after(case):
    if not case.get("shared_var"):
        return ""
    return ("run_command(name='after', run='./u.sh', deps=COMMON_DEPS)\n"
            "run_command(name='both2', run='./u.sh', deps=[':%s', ':after'])\n" % case["gname"])


def expansion_src(case):
    """The documented desugaring (reference page, 'Internally, Conductor translates...')."""
    out = []
    prev = None
    deps_src = case["deps"] if case["deps"] is not None else "[]"
    if case.get("shared_var"):
        out.append("COMMON_DEPS = %s\n" % case["deps"])
        deps_src = "COMMON_DEPS"
    m = case.get("mutate")
    for k, inst in enumerate(case["insts"]):
        if m and k == m["j"]:
            inst = dict(inst)
            if m["options"]:
                inst["options"] = "{'seed': 7}"
            if m["args"]:
                inst["args"] = "['extra']"
        parts = []
        ill = inst.get("ill", "")
        parts.append(ill if ill.startswith("name=") else "name=%r" % inst["name"])
        parts.append("run='./run.sh'")
        for key, field, default in (("par", "parallelizable", "False"), ("args", "args", "[]"), ("options", "options", "{}")):
            if ill.startswith(field + "="):
                parts.append(ill)
            else:
                parts.append("%s=%s" % (field, inst[key] if inst[key] is not None else default))
        if case["chain"] == "True" and prev is not None:
            parts.append("deps=[*%s, %r]" % (deps_src, ":" + prev))
        else:
            parts.append("deps=%s" % deps_src)
        out.append("run_experiment(%s)\n" % ", ".join(parts))
        prev = inst["name"]
    out.append("combine(name=%r, deps=[%s])\n" % (case["gname"], ", ".join(repr(":" + i["name"]) for i in case["insts"])))
    return "".join(out) + _after(case)


def other_src(case):
    s = "run_command(name='base', run='./b.sh', parallelizable=True)\nrun_experiment(name='base2', run='./b2.sh')\n"
    tail = ""
    c = case["consumer"]
    if c in ("group", "both"):
        tail += "run_command(name='use_group', run='./u.sh', deps=[':%s'])\n" % case["gname"]
    if c in ("instance", "both") and case["insts"]:
        tail += "run_command(name='use_inst', run='./u.sh', deps=[':%s', ':base'])\n" % case["insts"][-1]["name"]
    return s, tail


def target_id(case):
    pkg = case["pkg"]
    t = case["target"]
    if case.get("twin"):
        return "//q:both"
    if case.get("shared_var"):
        return "//%s:both2" % pkg
    if t == "consumer":
        name = "use_group" if case["consumer"] in ("group", "both") else "use_inst" if case["insts"] else case["gname"]
    elif t == "instance" and case["insts"]:
        name = case["insts"][0]["name"]
    else:
        name = case["gname"]
    return "//%s:%s" % (pkg, name)


def write(root, case, body):
    os.makedirs(root, exist_ok=True)
    with open(os.path.join(root, "cond_config.toml"), "w") as f:
        f.write("disable_git = true\n")
    d = os.path.join(root, case["pkg"]) if case["pkg"] else root
    os.makedirs(d, exist_ok=True)
    head, tail = other_src(case)
    with open(os.path.join(d, "COND"), "w") as f:
        f.write(head + body + tail)
    if case["pkg"]:
        with open(os.path.join(root, "COND"), "w") as f:
            f.write("")
    if case.get("twin"):
        os.makedirs(os.path.join(root, "q"), exist_ok=True)
        with open(os.path.join(root, "q", "COND"), "w") as f:
            f.write(head + body + "run_command(name='both', run='./u.sh', deps=[':%s', '//%s:%s'])\n" % (
                case["gname"], case["pkg"], case["gname"]))


def describe(root, tid):
    """Load the closure through TaskIndex and describe every loaded task."""
    from conductor.parsing.task_index import TaskIndex
    from conductor.task_identifier import TaskIdentifier
    from conductor.errors import ConductorError
    ti = TaskIndex(pathlib.Path(root))
    try:
        ti.load_transitive_closure(TaskIdentifier.from_str(tid))
    except ConductorError as ex:
        return ("rejected", type(ex).__name__)
    except Exception as ex:  # noqa
        return ("internal", type(ex).__name__)
    out = {}
    for ident, task in ti.get_all_loaded_tasks().items():
        d = {"type": type(task).__name__, "deps": [str(x) for x in task.deps]}
        if hasattr(task, "args"):
            d["args"] = task.args.serialize_cmdline()
            d["options"] = task.options.serialize_cmdline()
            d["par"] = task.parallelizable
            d["run"] = task.raw_run
        out[str(ident)] = d
    return ("accepted", out)


def execute(root, case, tid, clock, again):
    argv = ["run", tid]
    if case["jobs"] is not None:
        argv += ["-j", str(case["jobs"])]
    if again:
        argv.append("--again")
    pkg = case["pkg"]
    kspec = {"tape": case["tape"], "clock": clock,
             "outcomes": {"//%s:%s" % (pkg, k): v for k, v in case["outcomes"].items()},
             "files": {"*": {"ok": [["result.txt", "r"]]}}}
    res = run_cond(root, argv, kspec=kspec)
    spawns = []
    for e in res["events"]:
        if e["e"] == "spawn":
            env = {k: v.replace(root, "<ROOT>") for k, v in e["env"].items()}
            spawns.append((e["task"], tuple(e["argv"]), (e["cwd"] or "").replace(root, "<ROOT>"), tuple(sorted(env.items()))))
        elif e["e"] in ("exit", "reap", "kill", "launchfail"):
            spawns.append((e["e"], e.get("task"), e.get("status")))
    snap = trees.snapshot(os.path.join(root, "cond-out"))
    snap = {k: v for k, v in snap.items() if not k.endswith("version_index.sqlite")}
    return {"status": res["status"], "uncaught": res.get("uncaught"),
            "stdout": res["stdout"].decode("utf-8", "replace").replace(root, "<ROOT>"),
            "stderr": res["stderr"].decode("utf-8", "replace").replace(root, "<ROOT>"),
            "trace": spawns, "rows": projgen.read_rows(root), "tree": snap}


def run_case(case):
    ra = projgen.new_scratch("c19s")
    rb = projgen.new_scratch("c19e")
    try:
        labels = set()
        if case.get("twin"):
            labels.add("same_group_in_two_packages")
        if case.get("mutate"):
            labels.add("instance_defaults_filled_in_afterwards")
        if case.get("shared_var"):
            labels.add("deps_list_shared_with_a_later_task")
        v = []
        n = len(case["insts"])
        names = [i["name"] for i in case["insts"]]
        if case["chain"] == "True" and n >= 3:
            labels.add("chained>=3")
        if case["deps"] in ("[':base']", "[':base', ':base2']", "[':base2', ':base']", "['//p:base']") and n >= 2:
            labels.add("shared_deps")
        if len(set(names)) < n:
            labels.add("dup_instance_names")
        if case["gname"] in names:
            labels.add("instance_equals_group_name")
        if "base" in names:
            labels.add("instance_clashes_other_task")
        if case["exp_form"] == "absent":
            labels.add("experiments_absent")
        if case["exp_form"] == "gen":
            labels.add("generator_experiments")
        if any("ill" in i for i in case["insts"]) or case["deps"] in ("(':base',)", "':base'", "[1]"):
            labels.add("ill_typed_field")
        undefined_expansion = case["exp_form"] in ("nonlist_elem", "none_elem")
        if undefined_expansion:
            labels.add("non_instance_element")
        tid = target_id(case)
        write(ra, case, sugar_src(case))
        write(rb, case, expansion_src(case))
        da = describe(ra, tid)
        db = describe(rb, tid)
        summary = {"sugar": sugar_src(case), "target": tid, "loaded": [da[0], db[0]]}
        checked = 0
        if da[0] == "internal":
            v.append(("sugar_internal_error", "loading the sugar raised %s (not a Conductor diagnostic)" % da[1]))
        elif undefined_expansion:
            if da[0] != "rejected":
                v.append(("non_instance_accepted", "experiments containing a non-ExperimentInstance element was accepted"))
            else:
                # must be a clean CLI rejection as well
                res = run_cond(ra, ["run", "--check", tid])
                err = res["stderr"].decode("utf-8", "replace")
                if res["status"] != 1 or "ERROR:" not in err or res.get("uncaught"):
                    v.append(("non_instance_not_clean", "sugar with a non-instance element: status %r, stderr %r" % (res["status"], err[-200:])))
            checked = 1
        elif da[0] != db[0]:
            v.append(("accept_reject_mismatch:%s_vs_%s" % (da[0], db[0]),
                      "sugar is %s (%s) but its documented expansion is %s (%s)" % (
                          da[0], da[1] if da[0] != "accepted" else "", db[0], db[1] if db[0] != "accepted" else "")))
        elif da[0] == "rejected":
            labels.add("both_rejected")
            for root in (ra, rb):
                res = run_cond(root, ["run", tid], kspec={"clock": 1000.0})
                err = res["stderr"].decode("utf-8", "replace")
                if res["status"] != 1 or "ERROR:" not in err or res.get("uncaught") or any(e["e"] == "spawn" for e in res["events"]):
                    v.append(("rejection_not_clean", "%s: status %r stderr %r" % ("sugar" if root == ra else "expansion", res["status"], err[-200:])))
            checked = 1
        else:
            labels.add("both_accepted")
            ta, tb = da[1], db[1]
            if set(ta) != set(tb):
                v.append(("task_set", "task sets differ: sugar-only %s, expansion-only %s" % (sorted(set(ta) - set(tb)), sorted(set(tb) - set(ta)))))
            else:
                for k in sorted(ta):
                    if ta[k] != tb[k]:
                        diff = {f: (ta[k].get(f), tb[k].get(f)) for f in set(ta[k]) | set(tb[k]) if ta[k].get(f) != tb[k].get(f)}
                        v.append(("task_field:" + "+".join(sorted(diff)), "%s differs (sugar, expansion): %s" % (k, diff)))
            if case["outcomes"] and case["chain"] == "True":
                labels.add("failure_in_chain")
            ea = execute(ra, case, tid, 1000.0, case["again"])
            eb = execute(rb, case, tid, 1000.0, case["again"])
            runs = [(ea, eb, "first run")]
            if case["second_run"]:
                c2 = dict(case)
                c2["outcomes"] = {}
                runs.append((execute(ra, c2, tid, 2000.0, False), execute(rb, c2, tid, 2000.0, False), "second run"))
            for xa, xb, what in runs:
                for field in ("status", "uncaught", "trace", "rows", "stdout"):
                    if xa[field] != xb[field]:
                        v.append(("execution_" + field, "%s: %s differs between sugar and expansion: %r vs %r" % (
                            what, field, str(xa[field])[:300], str(xb[field])[:300])))
                if xa["tree"] != xb["tree"]:
                    v.append(("execution_tree", "%s: cond-out differs: %s" % (what, trees.diff(xa["tree"], xb["tree"]))))
            summary["spawned"] = [t[0] for t in ea["trace"] if isinstance(t[0], str) and t[0].startswith("//")]
            checked = 1
        nontrivial = n >= 2 and bool(labels & {"chained>=3", "shared_deps", "dup_instance_names", "instance_equals_group_name",
                                                "instance_clashes_other_task"} or case["chain"] == "True")
        seen, uv = set(), []
        for s in v:
            if s[0] not in seen:
                seen.add(s[0])
                uv.append(s)
        oc = Outcome(uv, sorted(labels), nontrivial, summary)
        oc.checked = checked
        return oc
    finally:
        projgen.rm(ra)
        projgen.rm(rb)


def account(extra, case, oc):
    extra["disagreements_checked"] = extra.get("disagreements_checked", 0) + getattr(oc, "checked", 0)
