"""C05 — cached-result selection follows the documented compatibility rule."""
import os

from hypothesis import strategies as st

from .. import gitgen, projgen
from ..isolate import run_cond
from ..runner import Outcome

ID = "C05"
LEVEL = "exploration"
RULE = ("Hypothesis-generated abstract commit DAGs (1-9 commits: linear extension, branches, two-parent merges incl. criss-cross; "
        "HEAD on any commit, attached or detached) materialised with git plumbing; 1-3 experiments with 0-5 recorded versions "
        "whose commit is on HEAD's ancestry / HEAD / off the ancestry / NULL / a well-formed hash unknown to the repository and "
        "whose timestamps are free (so 'newest' and 'closest' disagree; ties forced); git mode none/none without a git executable on the PATH/disabled/no-commits/normal; "
        "flags none/--again/--this-commit/--at-least X with X a full or abbreviated hash, branch, lightweight or annotated tag, non-ancestor "
        "commit or garbage, plus illegal combinations. Oracle = independent selection function on the ABSTRACT DAG (reflexive "
        "ancestor sets; distance = |reach(HEAD) minus reach(v)|), never asking git. Observed: `cond where`, `cond where -p`, spawn set "
        "and COND_DEPS of a dependent under the virtual kernel, 'Using cached' lines, exit status. Non-trivial = >=2 rows for one "
        "task whose order by timestamp differs from their order by distance, or a tie, or a non-ancestor row newer than every "
        "ancestor row. Distinct = SHA-1 of case JSON.")
ASSUMPTIONS = ["'number of separating commits' means what `git rev-list --count HEAD ^v` counts (commits reachable from HEAD and not from v)",
               "grafted/shallow histories are outside the domain"]
ESSENTIAL = ["merge_in_ancestry", "tie_same_commit", "only_null", "null_plus_foreign", "unknown_hash",
             "detached_head", "at_least_equal", "at_least_strict_ancestor", "at_least_annotated_tag", "at_least_unrelated_branch", "git_disabled",
             "empty_repo", "no_repo", "no_git_executable", "again", "newest_is_not_closest", "illegal_flag_combo"]
TECHNIQUE = "property-based testing (Hypothesis): generated commit DAGs materialised with real git, independent selection model on the abstract DAG"
LEVEL_TEXT = ("Randomised search over commit graphs x version rows x flags; every observable that reports the selected version is "
              "compared with a model that never consults git. Search, not proof.")
LEVEL_NOTE = "Trusted: the selection model in this file; vf/gitgen.py materialisation; real git for Conductor's own queries."

UNKNOWN = "0123456789abcdef0123456789abcdef01234567"


@st.composite
def _case(draw, tier):
    # none_nogit: no repository AND no git executable on the PATH (a slim container, a compute node)
    mode = draw(st.sampled_from(["normal"] * 8 + ["none", "disabled", "empty", "none_nogit"]))
    n = draw(st.sampled_from([1, 2, 3, 4, 5, 6, 7, 8, 9])) if mode in ("normal", "disabled") else 0
    commits = []
    for i in range(n):
        if i == 0:
            commits.append([])
            continue
        kind = draw(st.sampled_from(["one", "one", "one", "merge"]))
        p1 = draw(st.sampled_from(range(i)))
        if kind == "merge" and i >= 2:
            p2 = draw(st.sampled_from([x for x in range(i) if x != p1]))
            commits.append([p1, p2])
        else:
            # bias to extend the most recent tip (long chains) sometimes
            commits.append([i - 1] if draw(st.booleans()) else [p1])
    head = draw(st.sampled_from(range(n))) if n else None
    if n and draw(st.booleans()):
        head = n - 1
    nexp = draw(st.sampled_from([1, 1, 2, 3]))
    exps = []
    used_ts = set()
    for e in range(nexp):
        k = draw(st.sampled_from([0, 1, 2, 2, 3, 3, 4, 5]))
        rows = []
        for _ in range(k):
            if n:
                ref = draw(st.sampled_from(list(range(n)) * 2 + [head, head, None, "unknown"]))
            else:
                ref = draw(st.sampled_from([None, None, "unknown"]))
            ts = draw(st.sampled_from(range(100, 140)))
            if ts in used_ts:
                continue
            used_ts.add(ts)
            rows.append([ref, ts])
        if draw(st.sampled_from(range(5))) == 0 and rows:
            rows = [[None, ts] for _, ts in rows]   # only NULL commits
        exps.append({"rows": rows})
    if n >= 4 and draw(st.sampled_from(range(6))) == 0:
        # symmetric diamond at the tip: c(n-3) <- c(n-2'), c(n-1') ; merge on top => two rows at equal distance on different commits
        base = draw(st.sampled_from(range(n - 3)))
        commits[n - 3] = [base]
        commits[n - 2] = [n - 3]
        commits[n - 1] = [n - 3]
        commits.append([n - 2, n - 1])
        head = len(commits) - 1
        # 2-4 versions spread over the two tied commits, with interleaved timestamps (run at A, run at B, run --again at A,
        # then merge): the newest of ALL versions on the tied commits is the documented choice
        k2 = draw(st.sampled_from([2, 3, 3, 4]))
        sides = [n - 2, n - 1] + [draw(st.sampled_from([n - 2, n - 1])) for _ in range(k2 - 2)]
        sides = list(draw(st.permutations(sides)))
        tss = list(draw(st.permutations([150, 151, 152, 153])))[:k2]
        exps[0]["rows"] = [[sd, ts] for sd, ts in zip(sides, tss)] + [r for r in exps[0]["rows"] if r[0] is None][:1]
    flag = draw(st.sampled_from(["none"] * 4 + ["again", "this_commit", "at_least", "at_least", "at_least", "bad_combo"]))
    case = {"mode": mode, "commits": commits, "head": head, "detached": draw(st.booleans()), "exps": exps, "flag": flag}
    if flag == "at_least":
        form = draw(st.sampled_from(["full", "abbrev", "branch", "tag", "atag", "atag", "garbage"]))
        case["al_form"] = form
        case["al_commit"] = draw(st.sampled_from(range(n))) if n else None
    elif flag == "bad_combo":
        case["combo"] = draw(st.sampled_from([["--again", "--this-commit"], ["--this-commit", "--at-least", "HEAD"],
                                              ["--again", "--at-least", "HEAD"]]))
    case["jobs"] = draw(st.sampled_from([None, 2]))
    return case


def strategy(tier):
    return _case(tier)


def examples(tier):
    return 1280 if tier == "quick" else 50000


def select(case, rows):
    """The documented rule on the abstract DAG.  rows: [[ref, ts]] -> chosen [ref, ts] or None."""
    if not rows:
        return None
    if case["mode"] != "normal" or case["head"] is None:
        return max(rows, key=lambda r: r[1])
    commits = case["commits"]
    hr = gitgen.reach(commits, case["head"])
    anc = [r for r in rows if isinstance(r[0], int) and r[0] in hr]
    if anc:
        def dist(r):
            return len(hr - gitgen.reach(commits, r[0]))
        best = min(dist(r) for r in anc)
        return max((r for r in anc if dist(r) == best), key=lambda r: r[1])
    if all(r[0] is None for r in rows):
        return max(rows, key=lambda r: r[1])
    return None


def run_case(case):
    root = projgen.new_scratch("c05")
    try:
        return _run(case, root)
    finally:
        projgen.rm(root)


def _run(case, root):
    labels = set()
    v = []
    mode = case["mode"]
    commits = case["commits"]
    n = len(commits)
    nexp = len(case["exps"])
    with open(os.path.join(root, "cond_config.toml"), "w") as f:
        f.write("disable_git = true\n" if mode == "disabled" else "")
    with open(os.path.join(root, "COND"), "w") as f:
        for e in range(nexp):
            f.write("run_experiment(name='e%d', run='./e.sh')\n" % e)
        f.write("run_command(name='d', run='./d.sh', deps=[%s])\n" % ", ".join("':e%d'" % e for e in range(nexp)))
    hashes = []
    if mode in ("normal", "disabled"):
        refs = {"feature": case.get("al_commit")} if case.get("al_form") == "branch" and case.get("al_commit") is not None else {}
        tags = {"v1": case.get("al_commit")} if case.get("al_form") == "tag" and case.get("al_commit") is not None else {}
        atags = {"rel-1": case.get("al_commit")} if case.get("al_form") == "atag" and case.get("al_commit") is not None else {}
        hashes = gitgen.build(root, commits, head=case["head"], detached=case["detached"], refs=refs, tags=tags, atags=atags)
        labels.add("git_disabled" if mode == "disabled" else "normal_git")
    elif mode == "empty":
        gitgen.build(root, [], head=None)
        labels.add("empty_repo")
    else:
        labels.add("no_repo")
        if mode == "none_nogit":
            labels.add("no_git_executable")
    env = {"PATH": "/nonexistent-bin"} if mode == "none_nogit" else None
    if case["detached"] and mode == "normal":
        labels.add("detached_head")

    def h(ref):
        if ref is None:
            return None
        if ref == "unknown":
            return UNKNOWN
        return hashes[ref] if hashes else UNKNOWN

    rows = []
    for e, ex in enumerate(case["exps"]):
        for ref, ts in ex["rows"]:
            rows.append(("//:e%d" % e, ts, h(ref), False))
    projgen.seed_rows(root, rows)
    nontrivial = False
    hr = gitgen.reach(commits, case["head"]) if mode == "normal" and case["head"] is not None else set()
    if mode == "normal" and any(len(commits[c]) == 2 for c in hr):
        labels.add("merge_in_ancestry")
    sel = []
    for e, ex in enumerate(case["exps"]):
        r = ex["rows"]
        s = select(case, r)
        sel.append(s)
        if r and all(x[0] is None for x in r):
            labels.add("only_null")
        if any(x[0] is None for x in r) and any(isinstance(x[0], int) and x[0] not in hr for x in r):
            labels.add("null_plus_foreign")
        if any(x[0] == "unknown" for x in r):
            labels.add("unknown_hash")
        if mode == "normal":
            anc = [x for x in r if isinstance(x[0], int) and x[0] in hr]
            if len(anc) >= 2:
                d = {tuple(x): len(hr - gitgen.reach(commits, x[0])) for x in anc}
                best = min(d.values())
                ties = [x for x in anc if d[tuple(x)] == best]
                if len(ties) >= 2:
                    labels.add("tie_same_commit" if len({x[0] for x in ties}) == 1 else "tie_different_commits")
                    nontrivial = True
                newest = max(anc, key=lambda x: x[1])
                if d[tuple(newest)] != best:
                    labels.add("newest_is_not_closest")
                    nontrivial = True
            foreign = [x for x in r if not (isinstance(x[0], int) and x[0] in hr) and x[0] is not None]
            if anc and foreign and max(x[1] for x in foreign) > max(x[1] for x in anc):
                nontrivial = True

    def vdir(e, ts):
        return os.path.join(root, "cond-out", "e%d.task.%d" % (e, ts))

    # 1. cond where for every experiment (plain and -p)
    for e in range(nexp):
        for extra in ([], ["-p"]):
            res = run_cond(root, ["where", "//:e%d" % e] + extra, env=env)
            out = res["stdout"].decode().strip()
            if sel[e] is None:
                if res["status"] != 1 or "ERROR:" not in res["stderr"].decode("utf-8", "replace"):
                    v.append(("where_reports_unselected", "cond where //:e%d: no compatible version exists but status=%r out=%r" % (e, res["status"], out)))
            else:
                want = vdir(e, sel[e][1])
                if extra:
                    want = os.path.relpath(want, root)
                if res["status"] != 0 or os.path.normpath(out) != os.path.normpath(want):
                    v.append(("where_wrong_version", "cond where %s //:e%d -> status %r %r, documented rule selects %r (rows %s, HEAD=c%s)" % (
                        " ".join(extra), e, res["status"], out, want, case["exps"][e]["rows"], case["head"])))

    # 2. cond run //:d with the flag
    flag = case["flag"]
    argv = ["run", "//:d"]
    if case["jobs"]:
        argv += ["-j", str(case["jobs"])]
    expect_error = False
    at_least = None   # abstract commit index
    if flag == "again":
        argv.append("--again")
        labels.add("again")
    elif flag == "this_commit":
        argv.append("--this-commit")
        if mode != "normal" or case["head"] is None:
            expect_error = True
        else:
            at_least = case["head"]
    elif flag == "bad_combo":
        argv += case["combo"]
        expect_error = True
        labels.add("illegal_flag_combo")
    elif flag == "at_least":
        form = case["al_form"]
        c = case["al_commit"]
        if form == "garbage" or c is None or not hashes:
            sym = "not-a-commit-zz"
        elif form == "full":
            sym = hashes[c]
        elif form == "abbrev":
            sym = hashes[c][:10]
        elif form == "branch":
            sym = "feature"
        elif form == "atag":
            sym = "rel-1"
            labels.add("at_least_annotated_tag")
        else:
            sym = "v1"
        argv += ["--at-least", sym]
        if mode != "normal" or case["head"] is None or sym == "not-a-commit-zz":
            expect_error = True
        elif c not in hr:
            expect_error = True
            labels.add("at_least_unrelated_branch")
        else:
            at_least = c
    res = run_cond(root, argv, kspec={"clock": 5000.0, "files": {"*": {"ok": [["done", "x"]]}}}, env=env)
    err = res["stderr"].decode("utf-8", "replace")
    spawns = {e["task"]: e for e in res["events"] if e["e"] == "spawn"}
    nspawn = {}
    for e in res["events"]:
        if e["e"] == "spawn":
            nspawn[e["task"]] = nspawn.get(e["task"], 0) + 1
    summary = {"argv": argv, "mode": mode, "commits": commits, "head": case["head"], "rows": [x["rows"] for x in case["exps"]],
               "selected": sel, "spawned": sorted(spawns), "status": res["status"]}
    if res.get("uncaught"):
        v.append(("traceback", "cond %s: %s" % (" ".join(argv), res["uncaught_tb"].strip().splitlines()[-1])))
    elif expect_error:
        if res["status"] != 1 or "ERROR:" not in err:
            v.append(("flag_not_rejected", "cond %s must be rejected (mode=%s, head=%s) but status=%r" % (" ".join(argv), mode, case["head"], res["status"])))
        if spawns:
            v.append(("executed_despite_flag_error", "cond %s spawned %s" % (" ".join(argv), sorted(spawns))))
    else:
        if res["status"] != 0:
            v.append(("run_failed", "cond %s -> status %r: %s" % (" ".join(argv), res["status"], err[-300:])))
        else:
            want_run = set()
            for e in range(nexp):
                s = sel[e]
                if flag == "again":
                    rerun = True
                elif at_least is not None:
                    if s is None or s[0] is None or not isinstance(s[0], int):
                        rerun = True
                    else:
                        strict_anc = s[0] != at_least and s[0] in gitgen.reach(commits, at_least)
                        rerun = strict_anc
                        if s[0] == at_least:
                            labels.add("at_least_equal")
                        if strict_anc:
                            labels.add("at_least_strict_ancestor")
                else:
                    rerun = s is None
                if rerun:
                    want_run.add("//:e%d" % e)
            got_run = {t for t in spawns if t != "//:d"}
            if got_run != want_run:
                v.append(("wrong_rerun_set", "cond %s re-ran %s, the documented rule re-runs %s (selected=%s, rows=%s, HEAD=c%s)" % (
                    " ".join(argv), sorted(got_run), sorted(want_run), sel, [x["rows"] for x in case["exps"]], case["head"])))
            if any(c > 1 for c in nspawn.values()):
                v.append(("spawned_twice", "%s" % nspawn))
            from ..model import ANSI
            cached_lines = set()
            for l in res["stdout"].decode("utf-8", "replace").splitlines():
                l = ANSI.sub("", l)
                if l.startswith("✓ Using cached results for ") and l.endswith("."):
                    cached_lines.add(l[len("✓ Using cached results for "):-1])
            want_cached = {"//:e%d" % e for e in range(nexp)} - want_run
            if got_run == want_run and cached_lines != want_cached:
                v.append(("cached_lines", "reported cached: %s, expected %s" % (sorted(cached_lines), sorted(want_cached))))
            d = spawns.get("//:d")
            if d is None:
                v.append(("dependent_not_run", "//:d was not executed"))
            elif got_run == want_run:
                want_deps = []
                for e in range(nexp):
                    t = "//:e%d" % e
                    if t in spawns:
                        want_deps.append(spawns[t]["env"]["COND_OUT"])
                    else:
                        want_deps.append(vdir(e, sel[e][1]))
                got = d["env"].get("COND_DEPS", "")
                if got != ":".join(want_deps):
                    v.append(("cond_deps_wrong_version", "COND_DEPS of //:d = %r, expected %r" % (got, ":".join(want_deps))))
                # a re-run experiment's new row carries HEAD's hash
    seen, uv = set(), []
    for s in v:
        if s[0] not in seen:
            seen.add(s[0])
            uv.append(s)
    return Outcome(uv, sorted(labels), nontrivial, summary)
