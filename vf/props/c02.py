"""C02 — each needed task runs exactly once per invocation; nothing else runs."""
from .. import graph, model, projgen, reallayer
from ..runner import Outcome

ID = "C02"
LEVEL = "exploration"
RULE = ("Hypothesis-generated graph cases (as C01) with emphasis on cache state: each experiment has 0-2 seeded "
        "versions; flags none/--again; optionally a second invocation on the same project that sees the first "
        "one's versions. Oracle = independent model of the needed set (DFS from T that neither enters nor includes an "
        "experiment with a reusable version). Non-trivial = closure has a task reachable by >=2 paths, or >=1 cached "
        "experiment hides a non-empty subtree. Distinct = SHA-1 of case JSON."
        " Also generated: the same task name in different packages; one dependency listed twice under two spellings (then only 'at most once' and the progress counters are judged)."
        + reallayer.RULE_NOTE)
ASSUMPTIONS = ["git is disabled in these projects, so 'reusable cached result' = any recorded version (C05 checks the git rule)"]
ESSENTIAL = ["two_paths", "cached_hides_subtree", "cached_and_also_directly_needed", "again", "second_invocation",
             "failures_present"]
TECHNIQUE = "property-based testing (Hypothesis) under a virtual kernel; set/multiset oracle from an independent needed-set model; one case in 16 runs real task processes (order read from one O_APPEND log, no clock)"
LEVEL_TEXT = ("Randomised search; spawn multiset, printed progress and new index rows of each run are compared with the "
              "model's needed set. Search, not proof.")
LEVEL_NOTE = "Trusted: (real-process share: vf/reallayer.py, the serialisation of O_APPEND writes) vf/kernel.py spawn log; model.needed; stdout line grammar of Conductor's progress messages."

from hypothesis import strategies as st


@st.composite
def _strategy(draw, tier):
    general = graph.graph_case(max_tasks=8 if tier == "quick" else 12, outcomes="some", max_bad=1,
                               kinds=("cmd", "exp", "group", "combine"), kind_weights=(2, 4, 1, 1),
                               tape_max=30, flags=("again",))
    case = draw(st.one_of(general, general, general, graph.sandwich_case(flags=("again",), p_fail_den=12)))
    case["second"] = draw(st.sampled_from([None, None, "same", "again"]))
    # one dependency listed twice under two spellings (":d" and "//pkg:d"): whatever Conductor makes of such a
    # definition (it is rejected today), no task may run twice
    cands = [(i, k) for i, t in enumerate(case["tasks"]) for k, d in enumerate(t["deps"])
             if case["tasks"][d[0]]["pkg"] == t["pkg"] and t["kind"] != "combine"]
    if cands and draw(st.sampled_from(range(10))) == 0:
        case["dup_mixed"] = list(draw(st.sampled_from(cands)))
    return case


def strategy(tier):
    real = st.one_of(reallayer.real_case(flags=("again",), max_tasks=8), reallayer.real_case(flags=("again",), outcomes="none"))
    return reallayer.mixed(_strategy(tier), real)


def examples(tier):
    return 3000 if tier == "quick" else 120000


def run_dup_mixed(case, root):
    import copy
    c = copy.deepcopy(case)
    i, k = c.pop("dup_mixed")
    j, form = c["tasks"][i]["deps"][k]
    c["tasks"][i]["deps"].append([j, "abs" if form == "rel" else "rel"])
    projgen.write_project(root, c)
    graph.seed_case(root, c)
    res = graph.run_cond(root, graph.argv_for(c), kspec=graph.kernel_spec(c, 1000.0))
    obs = graph.Obs(c, res)
    v = []
    for t in obs.ids:
        n_exec, n_run = len(obs.intervals(t)), len(obs.lines("running", t))
        if n_exec > 1 or n_run > 1:
            v.append(("executed_twice", "%s executed %d times (Running lines: %d) in one invocation; %s lists %s under two spellings" % (
                t, n_exec, n_run, obs.ids[i], obs.ids[j])))
    prog = [m[3] for m in obs.lines("running") + obs.lines("skipping")]
    for kk, n in prog:
        if kk > n:
            v.append(("progress_index", "progress %d/%d" % (kk, n)))
    labels = ["mixed_spelling_duplicate_dep", "duplicate_rejected" if not obs.executed() else "duplicate_executed"]
    return Outcome(v, labels, False, obs.brief())


def run_case(case):
    if case.get("layer") == "real":
        res = reallayer.run_real(case)
        v, lb, nt, brief = judge(case, res, {int(i) for i in case.get("seeded", {})}, "again" in case["flags"],
                                 rows0_n(res["rows_before"]), res["rows_after"])
        return Outcome(v, sorted(set(lb + graph.shape_labels(case) + ["real_processes"])), nt, brief)
    root = projgen.new_scratch("c02")
    try:
        if case.get("dup_mixed"):
            return run_dup_mixed(case, root)
        projgen.write_project(root, case)
        rows0 = graph.seed_case(root, case)
        graph.plant_conflicts(root, case)
        out = []
        labels = graph.shape_labels(case)
        cached = {int(i) for i in case.get("seeded", {})}
        res = graph.run_cond(root, graph.argv_for(case), kspec=graph.kernel_spec(case, 1000.0))
        rows1 = projgen.read_rows(root)
        v, lb, nt, brief = judge(case, res, cached, "again" in case["flags"], rows0_n(rows0), rows1)
        labels += lb
        if case.get("second") and res["status"] != "deadlock":
            labels.append("second_invocation")
            ids = projgen.idents(case)
            cached2 = {ids.index(r[0]) for r in rows1 if r[0] in ids}
            c2 = dict(case)
            c2["flags"] = ["again"] if case["second"] == "again" else []
            # a planted conflict file, and a command with a NUL byte (it is in the COND file),
            # are still there in the second invocation
            c2["outcomes"] = {k: o for k, o in case.get("outcomes", {}).items() if "conflict" in o or o.get("launch") in ("nul", "blocked")}
            res2 = graph.run_cond(root, graph.argv_for(c2), kspec=graph.kernel_spec(c2, 2000.0))
            rows2 = projgen.read_rows(root)
            v2, lb2, nt2, brief2 = judge(c2, res2, cached2, case["second"] == "again", set(rows1), rows2)
            v += [(s, "second invocation: " + t) for s, t in v2]
            labels += lb2
            nt = nt or nt2
            brief = {"first": brief, "second": brief2}
        return Outcome(v, sorted(set(labels)), nt, brief)
    finally:
        projgen.rm(root)


def rows0_n(rows):
    return {(t, ts, c, d) for t, ts, c, d in rows}


def judge(case, res, cached, again, rows_before, rows_after):
    obs = graph.Obs(case, res)
    ids = obs.ids
    v = []
    labels = []
    if res["status"] in ("deadlock", "livelock"):
        return [], ["deadlock_ignored_here"], False, obs.brief()
    T = case["target"]
    clo = model.closure(case, T)
    need, hidden = model.needed(case, T, cached, again)
    bad = {int(i) for i in case.get("outcomes", {})} & need
    started, succeeded, failed, skipped = model.outcome_fixed_point(case, need, bad)
    if again:
        labels.append("again")
    if bad:
        labels.append("failures_present")
    for h in hidden:
        if model.dep_indices(case, h):
            labels.append("cached_hides_subtree")
    # a cached experiment that the closure reaches both behind another cached one and directly
    for h in hidden:
        preds = [x for x in need if h in model.dep_indices(case, x)]
        if len(preds) >= 2:
            labels.append("cached_and_also_directly_needed")
    executed = obs.executed()
    # (a) at most once
    for t in ids:
        n_exec = len(obs.intervals(t))
        n_run = len(obs.lines("running", t))
        if n_exec > 1 or n_run > 1:
            v.append(("executed_twice", "%s executed %d times (Running lines: %d) in one invocation" % (t, n_exec, n_run)))
    # (c) nothing outside the closure
    for t in executed | {m[2] for m in obs.msgs}:
        if t not in ids or obs.idx_of[t] not in clo:
            v.append(("outside_closure", "%s is not in the closure of %s but appears in the run" % (t, ids[T])))
    # (b) executed == started (== needed when nothing fails)
    stop_early = "stop_early" in case.get("flags", [])
    want = {ids[x] for x in started}
    if not stop_early:
        if executed != want:
            extra, missing = sorted(executed - want), sorted(want - executed)
            if extra:
                v.append(("not_needed_executed", "executed although not needed (cached, hidden or skipped): %s" % extra))
            if missing:
                v.append(("needed_not_executed", "needed but not executed: %s" % missing))
    # (d) cached report vs executed
    cached_lines = [m[2] for m in obs.lines("cached")]
    for t in set(cached_lines):
        if cached_lines.count(t) > 1:
            v.append(("cached_twice", "%s reported as cached %d times" % (t, cached_lines.count(t))))
        if t in executed:
            v.append(("cached_and_executed", "%s reported as using cached results and also executed" % t))
        if t not in ids or obs.idx_of[t] not in cached or again:
            v.append(("cached_without_version", "%s reported as cached but has no reusable version" % t))
    # (e) progress counters
    prog = [m[3] for m in obs.lines("running") + obs.lines("skipping")]
    totals = {n for _, n in prog}
    if prog:
        if totals != {len(need)}:
            v.append(("progress_total", "progress total(s) %s, number of tasks to execute is %d" % (sorted(totals), len(need))))
        ks = sorted(k for k, _ in prog)
        if ks != list(range(1, len(ks) + 1)):
            v.append(("progress_index", "progress indices %s are not 1..n without repetition" % ks))
        if not bad and not stop_early and len(ks) != len(need):
            v.append(("progress_count", "%d tasks announced, %d needed" % (len(ks), len(need))))
    # (f) new rows == experiments executed with exit 0
    new_rows = {r[0] for r in set(rows_after) - set(rows_before)}
    want_rows = {ids[x] for x in succeeded if case["tasks"][x]["kind"] == "exp"}
    if not stop_early and new_rows != want_rows:
        v.append(("rows", "new versions recorded for %s, experiments that ran successfully: %s" % (sorted(new_rows), sorted(want_rows))))
    nontrivial = "two_paths" in graph.shape_labels(case) or "cached_hides_subtree" in labels
    return v, labels, nontrivial, obs.brief()
