"""C17 — commands behave the same from any directory inside the project."""
import os
import re
import shutil

from hypothesis import strategies as st

from .. import graph, model, projgen, trees
from ..isolate import run_cond
from ..runner import Outcome

ID = "C17"
LEVEL = "exploration"
RULE = ("Hypothesis-generated project states (sources in nested packages + a cond-out produced by a short generated history of "
        "successful/failed runs: several versions, unrecorded experiment dirs, a combine) x a subcommand with flags from "
        "{run T (--again, -j, --check), where T (-p, -f), gc (-n, -v), archive (-l, task, -o <abs>), restore <abs>, clean -f} x "
        "ALL directories of the project that exist then (root, every package dir, a dir without COND file, cond-out, package and "
        "task-output dirs inside cond-out). The state is copied once per directory; the same command runs in-process with that "
        "cwd, frozen harness clock, virtual kernel for `run`. Metamorphic oracle against the copy run from the root: same exit "
        "status; same stdout/stderr after mapping each copy's root to <ROOT> and resolving printed relative paths against the "
        "cwd they were printed for; same resulting tree (names, types, bytes), rows and spawn log. Additionally an inner project (own cond_config.toml) is planted below a directory of the outer one: commands run at and below "
        "it must act on the inner root only (nearest ancestor). 0-2 directories that other tools take for a project root are planted too (a nested .git directory, "
        "a submodule's .git file, .hg, .svn, a pyproject.toml, a directory named cond-out below docs/) and are used as cwd. Non-trivial = cwd != root and "
        "the command has an observable effect or prints a location. Distinct = SHA-1 of case JSON.")
ASSUMPTIONS = ["task identifiers on the command line are absolute (//pkg:name); output paths given with -o / restore are absolute",
               "`where -p` prints a path relative to the project root by definition, so it must be literally identical from every directory"]
ESSENTIAL = ["cwd_in_cond_out", "cwd_pkg_depth>=2", "cwd_no_cond_file", "gc_with_work", "gc_dry_run_with_work",
             "archive_default_output", "where_relative", "run", "restore", "clean", "inner_project"]
TECHNIQUE = "metamorphic property testing (Hypothesis): identical project copies, same command from every directory, outputs compared modulo root/relative-path rendering"
LEVEL_TEXT = "Randomised search over project states and commands; every existing directory of the project is used as cwd (exhaustive over directories per case)."
LEVEL_NOTE = "Trusted: path normalisation rules in this file; vf/trees.py."

ANSI = model.ANSI


@st.composite
def _case(draw, tier):
    g = draw(graph.graph_case(max_tasks=6, min_tasks=2, outcomes="none", kind_weights=(2, 4, 1, 1), flags=(), tape_max=0,
                              seeded=False, jobs=(None, 2)))
    g["pkgs"] = draw(st.sampled_from([["", "a"], ["", "a", "a/b"], ["a/b/c", ""], ["p-1", "p-1/_q", ""]]))
    for t in g["tasks"]:
        t["pkg"] = draw(st.sampled_from(range(len(g["pkgs"]))))
    graph.dedupe_names(g)
    for t in g["tasks"]:
        for d in t["deps"]:
            if g["tasks"][d[0]]["pkg"] != t["pkg"]:
                d[1] = "abs"
    for t in g["tasks"]:
        if t["kind"] == "combine":
            seen, keep = set(), []
            for d in t["deps"]:
                nm = g["tasks"][d[0]]["name"]
                if nm not in seen:
                    seen.add(nm)
                    keep.append(d)
            t["deps"] = keep
    hist = []
    for _ in range(draw(st.sampled_from([1, 2, 3]))):
        bad = {}
        for i, t in enumerate(g["tasks"]):
            if t["kind"] in graph.PROC_KINDS and draw(st.sampled_from(range(4))) == 0:
                bad[str(i)] = {"exit": 3}
        hist.append({"flags": draw(st.sampled_from([[], ["again"]])), "outcomes": bad,
                     "target": draw(st.sampled_from([0, 0] + list(range(len(g["tasks"])))))})
    g["history"] = hist
    cmd = draw(st.sampled_from(["run", "run", "where", "where", "gc", "gc", "gc", "archive", "archive", "restore", "clean"]))
    c = {"cmd": cmd, "task": draw(st.sampled_from(range(len(g["tasks"]))))}
    if cmd == "run":
        c["flags"] = draw(st.sampled_from([[], ["--again"], ["--check"], ["-j", "2"], ["--again", "-j", "3"]]))
    elif cmd == "where":
        c["flags"] = draw(st.sampled_from([[], ["-p"], ["-f"], ["-p", "-f"]]))
    elif cmd == "gc":
        c["flags"] = draw(st.sampled_from([[], ["-n"], ["-v"], ["-n", "-v"]]))
    elif cmd == "archive":
        c["flags"] = draw(st.sampled_from([[], ["-l"], ["TASK"], ["-l", "TASK"]]))
        c["out"] = draw(st.sampled_from(["default", "abs"]))
    g["command"] = c
    # directories that OTHER tools would take for a project root (a vendored checkout, a submodule, a Mercurial clone, a
    # Python package, a directory called cond-out): Conductor's root is the nearest cond_config.toml and nothing else
    g["markers"] = draw(st.lists(st.sampled_from(sorted(MARKERS)), min_size=0, max_size=2, unique=True))
    return g


MARKERS = {
    "git_dir": [("vendor/lib/.git/HEAD", "ref: refs/heads/main\n"), ("vendor/lib/src/x.txt", "x")],
    "git_file": [("vendor/sub/.git", "gitdir: ../../.git/modules/sub\n"), ("vendor/sub/scripts/run.sh", "true\n")],
    "hg_dir": [("vendor/hgrepo/.hg/requires", "store\n"), ("vendor/hgrepo/a/b.txt", "b")],
    "py_project": [("vendor/py/pyproject.toml", "[project]\nname = 'x'\n"), ("vendor/py/setup.py", ""), ("vendor/py/pkg/__init__.py", "")],
    "nested_cond_out": [("docs/cond-out/a/keep.txt", "not the project's cond-out")],
    "svn_dir": [("vendor/old/.svn/entries", "12\n"), ("vendor/old/trunk/f", "f")],
}


def strategy(tier):
    return _case(tier)


def examples(tier):
    return 640 if tier == "quick" else 15000


def run_case(case):
    work = projgen.new_scratch("c17")
    try:
        return _run(case, work)
    finally:
        projgen.rm(work)


def normalise(text, root, cwd, cmd, flags, extra=()):
    """Map the copy's root to <ROOT>; resolve relative paths printed by gc/archive against the cwd."""
    out = []
    for ln in ANSI.sub("", text).split("\n"):
        for pre in ("Would delete ", "Deleting ", "✨ Done! Archive saved as "):
            if ln.startswith(pre):
                p = ln[len(pre):]
                if not os.path.isabs(p):
                    p = os.path.normpath(os.path.join(cwd, p))
                ln = pre + p
        out.append(ln)
    text = "\n".join(out)
    for a, b in extra:
        text = text.replace(a, b)
    text = text.replace(root, "<ROOT>")
    text = re.sub(r"cond-archive\+[0-9+-]+\.tar\.gz", "cond-archive+<TIME>.tar.gz", text)
    return text


def _run(case, work):
    ids = projgen.idents(case)
    base = os.path.join(work, "base")
    projgen.write_project(base, case)
    os.makedirs(os.path.join(base, "docs", "notes"))
    with open(os.path.join(base, "docs", "readme.txt"), "w") as f:
        f.write("no COND file here")
    labels = set()
    for mk in case.get("markers", []):
        labels.add("foreign_root_marker:" + mk)
        for rel, text in MARKERS[mk]:
            os.makedirs(os.path.dirname(os.path.join(base, rel)), exist_ok=True)
            with open(os.path.join(base, rel), "w") as f:
                f.write(text)
    v = []
    clock = 1000.0
    for inv in case["history"]:
        c2 = dict(case)
        c2["target"] = inv["target"] if inv["target"] < len(case["tasks"]) else 0
        c2["flags"] = inv["flags"]
        c2["outcomes"] = inv["outcomes"]
        c2["tape"] = []
        kspec = graph.kernel_spec(c2, clock)
        kspec["files"] = {"*": {"ok": [["result.txt", "r"]]}}
        run_cond(base, graph.argv_for(c2), kspec=kspec)
        clock += 5
    cmd = case["command"]
    name = cmd["cmd"]
    tid = ids[cmd["task"]]
    archive_for_restore = None
    if name == "restore":
        archive_for_restore = os.path.join(work, "forrestore.tar.gz")
        r = run_cond(base, ["archive", "-o", archive_for_restore], kspec={"clock": clock})
        if r["status"] != 0:
            return Outcome([], ["nothing_to_archive"], False, {"cmd": "restore", "skipped": "no versions"})
        shutil.rmtree(os.path.join(base, "cond-out"))
    # all directories of the project that exist now
    dirs = []
    for dp, dn, fn in os.walk(base):
        rel = os.path.relpath(dp, base)
        dirs.append("" if rel == "." else rel)
    dirs.sort(key=lambda d: (d != "", d))
    if len(dirs) > 16:
        # keep the root, every directory at or below a foreign root marker, and a stride sample of the rest
        marked = [d for d in dirs if d.startswith("vendor/") or d.startswith("docs/cond-out")]
        rest = [d for d in dirs[1:] if d not in marked]
        dirs = dirs[:1] + rest[::max(1, len(rest) // 10)] + marked[:6]
    rows_base = projgen.read_rows(base)
    unrecorded = False
    for dp, dn, fn in os.walk(os.path.join(base, "cond-out")) if os.path.isdir(os.path.join(base, "cond-out")) else []:
        for d in dn:
            m = re.match(r"^(.+)\.task\.(\d+)$", d)
            if m:
                rel = os.path.relpath(dp, os.path.join(base, "cond-out"))
                t = "//%s:%s" % ("" if rel == "." else rel, m.group(1))
                if (t, int(m.group(2))) not in {(r[0], r[1]) for r in rows_base}:
                    unrecorded = True
    results = []
    for i, d in enumerate(dirs):
        copy = os.path.join(work, "copy%d" % i)
        shutil.copytree(base, copy, symlinks=True)
        cwd = os.path.join(copy, d) if d else copy
        extra = []
        if name == "run":
            argv = ["run", tid] + cmd["flags"]
            labels.add("run")
        elif name == "where":
            argv = ["where", tid] + cmd["flags"]
            if "-p" in cmd["flags"]:
                labels.add("where_relative")
        elif name == "gc":
            argv = ["gc"] + cmd["flags"]
            if unrecorded:
                labels.add("gc_dry_run_with_work" if "-n" in cmd["flags"] else "gc_with_work")
        elif name == "archive":
            argv = ["archive"] + [tid if f == "TASK" else f for f in cmd["flags"]]
            if cmd.get("out") == "abs":
                outp = os.path.join(work, "out%d.tar.gz" % i)
                argv += ["-o", outp]
                extra.append((outp, "<OUT>"))
            else:
                labels.add("archive_default_output")
        elif name == "restore":
            argv = ["restore", archive_for_restore]
            labels.add("restore")
        else:
            argv = ["clean", "-f"]
            labels.add("clean")
        kspec = {"clock": clock, "files": {"*": {"ok": [["result.txt", "r"]]}}}
        res = run_cond(copy, argv, cwd=cwd, kspec=kspec)
        spawns = [(e["task"], tuple(e["argv"]), (e["cwd"] or "").replace(copy, "<ROOT>"),
                   tuple(sorted((k, x.replace(copy, "<ROOT>")) for k, x in e["env"].items())))
                  for e in res["events"] if e["e"] == "spawn"]
        snap = trees.snapshot(copy)
        snap = {re.sub(r"cond-archive\+[0-9+-]+\.tar\.gz", "cond-archive+<TIME>.tar.gz", k): val for k, val in snap.items()
                if not k.endswith("version_index.sqlite")}
        # archive files embed mtimes etc.: compare their presence, not their bytes
        snap = {k: (("f", "archive") if k.endswith(".tar.gz") else val) for k, val in snap.items()}
        results.append({
            "dir": d, "status": res["status"], "uncaught": res.get("uncaught"),
            "stdout": normalise(res["stdout"].decode("utf-8", "replace"), copy, cwd, name, cmd.get("flags"), extra),
            "stderr": normalise(res["stderr"].decode("utf-8", "replace"), copy, cwd, name, cmd.get("flags"), extra),
            "spawns": spawns, "tree": snap, "rows": projgen.read_rows(copy),
            "out_exists": os.path.exists(extra[0][0]) if extra else None,
        })
        if d.startswith("cond-out"):
            labels.add("cwd_in_cond_out")
        elif d.count("/") >= 1 and d.split("/")[0] != "docs":
            labels.add("cwd_pkg_depth>=2")
        if d.startswith("docs"):
            labels.add("cwd_no_cond_file")
    # nearest-ancestor rule: an inner project (own cond_config.toml) nested in a directory of the outer one
    inner = os.path.join(work, "copy0", "docs", "inner")
    if os.path.isdir(os.path.join(work, "copy0")) and name != "clean":
        os.makedirs(os.path.join(inner, "sub", "deep"), exist_ok=True)
        with open(os.path.join(inner, "cond_config.toml"), "w") as f:
            f.write("disable_git = true\n")
        with open(os.path.join(inner, "COND"), "w") as f:
            f.write("run_command(name='inner_task', run='true')\n")
        with open(os.path.join(inner, "sub", "COND"), "w") as f:
            f.write("run_command(name='sub_task', run='true')\n")
        outer_before = trees.snapshot(os.path.join(work, "copy0"), skip=("docs/inner",))
        for cwd_rel in ("", "sub", "sub/deep"):
            cwd_i = os.path.join(inner, cwd_rel)
            r1 = run_cond(inner, ["where", "-f", "//:inner_task"], cwd=cwd_i)
            want = os.path.join(inner, "cond-out", "inner_task.task")
            got = r1["stdout"].decode().strip()
            if r1["status"] != 0 or os.path.normpath(got) != want:
                v.append(("inner_project_root_not_nearest", "from %s inside an inner project: where -f //:inner_task -> status %r %r, expected %r" % (
                    cwd_rel or ".", r1["status"], got or r1["stderr"].decode()[-200:], want)))
            r2 = run_cond(inner, ["run", "//sub:sub_task"], cwd=cwd_i, kspec={"clock": clock})
            sp = [e for e in r2["events"] if e["e"] == "spawn"]
            if r2["status"] != 0 or not sp or not sp[0]["env"]["COND_OUT"].startswith(os.path.join(inner, "cond-out", "sub") + os.sep):
                v.append(("inner_project_run_wrong_root", "from %s inside an inner project: run //sub:sub_task -> status %r, COND_OUT %r" % (
                    cwd_rel or ".", r2["status"], sp[0]["env"]["COND_OUT"] if sp else None)))
        if trees.snapshot(os.path.join(work, "copy0"), skip=("docs/inner",)) != outer_before:
            v.append(("inner_project_touched_outer", "commands run inside the inner project changed the outer project"))
        labels.add("inner_project")
    ref = results[0]
    what = " ".join(argv[:1] + [a for a in argv[1:] if not a.startswith(work)])
    if ref["uncaught"]:
        v.append(("traceback_from_root:" + ref["uncaught"], "cond %s from the project root: %s" % (what, ref["stderr"].strip().splitlines()[-1][:200])))
    for r in results[1:]:
        where = "from %s/" % r["dir"]
        if r["uncaught"] and not ref["uncaught"]:
            v.append(("traceback_from_subdir:" + r["uncaught"], "cond %s %s: %s (works from the root)" % (what, where, r["stderr"].strip().splitlines()[-1][:200])))
            continue
        if r["status"] != ref["status"]:
            v.append(("exit_status_differs", "cond %s: status %r %s, %r from the root" % (what, r["status"], where, ref["status"])))
        for field in ("stdout", "stderr"):
            if r[field] != ref[field]:
                v.append((field + "_differs", "cond %s %s prints %r, from the root %r" % (what, where, _firstdiff(r[field], ref[field]), _firstdiff(ref[field], r[field]))))
        if r["tree"] != ref["tree"]:
            v.append(("effects_differ", "cond %s %s leaves a different project tree: %s" % (what, where, trees.diff(ref["tree"], r["tree"]))))
        if r["rows"] != ref["rows"]:
            v.append(("rows_differ", "cond %s %s leaves different recorded versions" % (what, where)))
        if r["spawns"] != ref["spawns"]:
            v.append(("executions_differ", "cond %s %s starts different task processes (cwd/env/argv modulo root)" % (what, where)))
        if r["out_exists"] != ref["out_exists"]:
            v.append(("archive_output_differs", "cond %s %s: -o file exists=%r, from root %r" % (what, where, r["out_exists"], ref["out_exists"])))
    effect = name in ("run", "gc", "archive", "restore", "clean") or name == "where"
    nontrivial = len(results) > 1 and effect
    seen, uv = set(), []
    for s in v:
        if s[0] not in seen:
            seen.add(s[0])
            uv.append(s)
    return Outcome(uv, sorted(labels), nontrivial, {"argv": what, "dirs": dirs, "status_from_root": ref["status"],
                                                    "stdout_from_root": ref["stdout"][-300:]})


def _firstdiff(a, b):
    la, lb = a.split("\n"), b.split("\n")
    for x, y in zip(la, lb):
        if x != y:
            return x[:160]
    return (la[len(lb)] if len(la) > len(lb) else "<missing line>")[:160]
