"""C06 — only successful runs become versions; the index never outlives its data."""
import json
import math
import os
import shutil

from hypothesis import strategies as st

from .. import fsorder, gitgen, graph, projgen, trees
from ..isolate import run_cond
from ..runner import Outcome

ID = "C06"
LEVEL = "fault_enumeration"
RULE = ("Hypothesis-generated command histories over one project (experiments with args/options, commands, groups; optional git "
        "repository whose HEAD moves and whose tree becomes dirty/clean between steps): run(T, flags, outcome map, schedule tape), "
        "archive, wipe+restore of an earlier archive, restore on top, gc, clean -f; every command can be killed (os._exit at the k-th executed "
        "Python line of src/conductor/** - for clean/restore steps optionally also of shutil.py, i.e. inside rmtree/copytree, under a "
        "generated directory-listing order; k drawn per command from a dry run on a copy of the project) - plus a sweep that "
        "enumerates the kill point over every 4th (thorough: every) line of 2 fixed run scenarios, 1 restore and 2 clean scenarios. Virtual "
        "children write a `partial` file when they start and `done` + data when they exit 0. Invariant checked after EVERY step "
        "through a fresh sqlite connection: each row's directory exists, holds `done`, stdout.log/stderr.log, and args.json/"
        "options.json iff declared (decoding to the declaration); each new row belongs to an execution that exited 0 in that "
        "step and carries that invocation's HEAD hash and dirty flag; restored rows equal what was archived. "
        "Non-trivial = a killed step whose kill point lies after the first spawn/copy and before the command's end, or a run in "
        "which one experiment fails while another is recorded. Distinct = SHA-1 of case JSON."
        " Also generated: `clean -f` as a killable step and kill points inside shutil (rmtree/copytree) under a generated directory-listing order; git steps touch (same content, new mtime: not a change) and dirty_staged (a change that is completely staged: a change); a killed restore followed by the same restore again (generated, and as a sixth sweep scenario).")
ASSUMPTIONS = ["process-kill semantics at Python-line granularity; power loss is out of scope",
               "the order in which a directory's entries are listed is chosen by the case (fs order, sorted, reversed, seeded permutations)"]
ESSENTIAL = ["touched_but_unchanged", "dirty_only_in_index", "kill_during_run_after_spawn", "kill_during_restore_after_copy", "kill_during_gc", "kill_during_clean_partway", "kill_inside_shutil", "nonzero_exit_not_recorded",
             "dirty_flag_true", "head_moved", "restore_after_wipe", "args_and_options_recorded", "kill_between_exit_and_record", "restore_repeated_after_a_killed_restore"]
TECHNIQUE = "stateful property testing (Hypothesis-generated command histories) with kill-point fault injection (sys.settrace + os._exit) and an on-disk invariant"
LEVEL_TEXT = ("Histories are generated; kill points are drawn per command and enumerated for fixed scenarios. The invariant is evaluated on "
              "the disk state a user's next command would see.")
LEVEL_NOTE = "Trusted: sqlite journal recovery on reopen; virtual-kernel file materialisation as the task's 'finished output'."

SHUTIL = os.path.dirname(shutil.__file__) + "/shutil.py"
ORDERS = ["fs", "sorted", "reversed", 1, 2, 3, 4]


def _files(deep):
    base = (os.path.join(os.path.realpath(os.environ.get("VERIF_REPO", "/repo")), "src", "conductor"),)
    return base + ((SHUTIL,) if deep else ())


FILES = {"*": {"start": [["partial", "started"]], "ok": [["done", "done"], ["data/result.bin", "\x00\x01payload"]]}}


@st.composite
def _case(draw, tier):
    g = draw(graph.graph_case(max_tasks=5, min_tasks=1, outcomes="none", kind_weights=(1, 5, 1, 0), flags=(), tape_max=0,
                              seeded=False, jobs=(None, 2, 3)))
    for t in g["tasks"]:
        if t["kind"] == "exp":
            t["args"] = draw(st.sampled_from([[], ["a", 1], [True, 0.5]]))
            t["opts"] = draw(st.sampled_from([[], [["k", "v"]], [["n", 2], ["flag", False]]]))
    g["git"] = draw(st.sampled_from(["disabled", "git", "git"]))
    nsteps = draw(st.sampled_from([1, 2, 3, 4, 5, 6]))
    steps = []
    for _ in range(nsteps):
        op = draw(st.sampled_from(["run", "run", "run", "archive", "restore", "wipe_restore", "gc", "git", "clean"]))
        s = {"op": op, "kill": draw(st.sampled_from([None, None] + list(range(0, 1000, 37))))}
        if op in ("clean", "restore", "wipe_restore"):
            # kill points inside shutil.rmtree / shutil.copytree as well, under a generated directory-listing order
            s["deep"] = draw(st.sampled_from([True, True, False]))
            s["order"] = draw(st.sampled_from(ORDERS))
            if op == "clean":
                s["kill"] = draw(st.sampled_from([None] + list(range(0, 1000, 37))))
        if op == "run":
            s["target"] = draw(st.sampled_from([0, 0] + list(range(len(g["tasks"])))))
            s["flags"] = draw(st.sampled_from([[], ["again"], ["again"]]))
            bad = {}
            for i, t in enumerate(g["tasks"]):
                if t["kind"] in graph.PROC_KINDS and draw(st.sampled_from(range(5))) == 0:
                    # rmout: the command exits 0 after removing / moving away its own output directory
                    bad[str(i)] = draw(st.sampled_from([{"exit": 3}, {"signal": 9}, {"launch": "eagain"}, {"rmout": True}, {"rmout": True},
                                                        {"argsdir": True}, {"argsdir": True}]))
                    if "argsdir" in bad[str(i)] and t["kind"] == "exp":
                        t["args"] = t.get("args") or ["a", 1]      # the records Conductor cannot write then
                    if "rmout" in bad[str(i)] and draw(st.booleans()):
                        t["args"], t["opts"] = [], []    # nothing to record but the version itself
            # now and then exactly one experiment ends awkwardly (see above) while the others of the invocation succeed
            exps = [i for i, t in enumerate(g["tasks"]) if t["kind"] == "exp"]
            awkward = draw(st.sampled_from([None, None, None, "rmout", "argsdir", "argsdir"]))
            if awkward and exps:
                i = draw(st.sampled_from(exps))
                bad[str(i)] = {awkward: True}
                if awkward == "argsdir":
                    g["tasks"][i]["args"] = g["tasks"][i].get("args") or ["a", 1]
            s["outcomes"] = bad
            tl = draw(st.sampled_from([0, 6, 20]))
            s["tape"] = draw(st.lists(st.sampled_from([0] * 20 + list(range(1, 16))), min_size=tl, max_size=tl))
        elif op == "git":
            s["action"] = draw(st.sampled_from(["commit", "dirty", "dirty_staged", "clean", "checkout_prev", "touch", "touch"]))
            s["kill"] = None
        elif op == "archive":
            s["latest"] = draw(st.booleans())
        steps.append(s)
        if op in ("restore", "wipe_restore") and s["kill"] is not None and draw(st.booleans()):
            # what a user does after an interrupted restore: the same command again (on whatever the first attempt left)
            steps.append({"op": "restore", "kill": draw(st.sampled_from([None, None, None] + list(range(0, 1000, 111)))),
                          "deep": True, "order": s["order"], "retry": True})
    runs = [j for j, s in enumerate(steps) if s["op"] == "run"]
    if g["git"] == "git" and runs and draw(st.sampled_from(range(2))) == 0:
        # a touched-but-unchanged tracked file, or a change that is completely staged, right before a run that records
        j = draw(st.sampled_from(runs))
        if draw(st.booleans()):
            steps[j]["outcomes"] = {}
            steps[j]["kill"] = None
        steps.insert(j, {"op": "git", "action": draw(st.sampled_from(["touch", "dirty_staged", "dirty_staged"])), "kill": None})
    g["steps"] = steps
    return g


def strategy(tier):
    return _case(tier)


def examples(tier):
    return 320 if tier == "quick" else 60000


FIXED = [
    {"pkgs": ["", "a"], "tasks": [
        {"pkg": 0, "name": "g", "kind": "group", "deps": [[1, "rel"], [2, "abs"]]},
        {"pkg": 0, "name": "e1", "kind": "exp", "deps": [], "par": True, "args": ["a", 1], "opts": [["k", "v"]]},
        {"pkg": 1, "name": "e2", "kind": "exp", "deps": [], "par": True, "args": [], "opts": [["n", 2]]}],
     "git": "disabled", "jobs": 2,
     "steps": [{"op": "run", "target": 0, "flags": [], "outcomes": {}, "tape": [0, 0, 0, 0, 6], "kill": "sweep"}]},
    {"pkgs": [""], "tasks": [
        {"pkg": 0, "name": "top", "kind": "cmd", "deps": [[1, "rel"], [2, "rel"]], "par": False},
        {"pkg": 0, "name": "x1", "kind": "exp", "deps": [], "par": False, "args": [True], "opts": []},
        {"pkg": 0, "name": "x2", "kind": "exp", "deps": [], "par": False, "args": [], "opts": []}],
     "git": "git", "jobs": None,
     "steps": [{"op": "git", "action": "dirty", "kill": None},
               {"op": "run", "target": 0, "flags": [], "outcomes": {"2": {"exit": 4}}, "tape": [], "kill": "sweep"}]},
    {"pkgs": ["", "a"], "tasks": [
        {"pkg": 0, "name": "g", "kind": "group", "deps": [[1, "rel"], [2, "abs"]]},
        {"pkg": 0, "name": "e1", "kind": "exp", "deps": [], "par": False, "args": ["a"], "opts": []},
        {"pkg": 1, "name": "e2", "kind": "exp", "deps": [], "par": False, "args": [], "opts": [["n", 2]]}],
     "git": "disabled", "jobs": None,
     "steps": [{"op": "run", "target": 0, "flags": [], "outcomes": {}, "tape": [], "kill": None},
               {"op": "archive", "latest": False, "kill": None},
               {"op": "wipe_restore", "kill": "sweep"}]},
    {"pkgs": ["", "a", "zz"], "tasks": [
        {"pkg": 0, "name": "g", "kind": "group", "deps": [[1, "rel"], [2, "abs"], [3, "abs"]]},
        {"pkg": 0, "name": "e1", "kind": "exp", "deps": [], "par": False, "args": ["a"], "opts": []},
        {"pkg": 1, "name": "e2", "kind": "exp", "deps": [], "par": False, "args": [], "opts": [["n", 2]]},
        {"pkg": 2, "name": "e3", "kind": "exp", "deps": [], "par": False, "args": [], "opts": []}],
     "git": "disabled", "jobs": None,
     "steps": [{"op": "run", "target": 0, "flags": [], "outcomes": {}, "tape": [], "kill": None},
               {"op": "clean", "deep": True, "order": "sorted", "kill": "sweep"}]},
    {"pkgs": ["", "a", "zz"], "tasks": [
        {"pkg": 0, "name": "g", "kind": "group", "deps": [[1, "rel"], [2, "abs"], [3, "abs"]]},
        {"pkg": 0, "name": "e1", "kind": "exp", "deps": [], "par": False, "args": ["a"], "opts": []},
        {"pkg": 1, "name": "e2", "kind": "exp", "deps": [], "par": False, "args": [], "opts": [["n", 2]]},
        {"pkg": 2, "name": "e3", "kind": "exp", "deps": [], "par": False, "args": [], "opts": []}],
     "git": "disabled", "jobs": None,
     "steps": [{"op": "run", "target": 0, "flags": [], "outcomes": {}, "tape": [], "kill": None},
               {"op": "clean", "deep": True, "order": "reversed", "kill": "sweep"}]},
]
# 5: a restore killed at every line (also inside shutil.copytree), followed by the same restore again
FIXED.append(dict(FIXED[2], steps=[FIXED[2]["steps"][0], FIXED[2]["steps"][1],
                                   {"op": "wipe_restore", "kill": "sweep", "deep": True, "order": "sorted"},
                                   {"op": "restore", "kill": None, "retry": True}]))
_N = {}


def enumerate_cases(tier, w, nworkers):
    stride = 4 if tier == "quick" else 1
    idx = 0
    for si, sc in enumerate(FIXED):
        n = _sweep_len(sc)
        for k in range(1 + si % stride, n + 1, stride):
            if idx % nworkers == w:
                c = json.loads(json.dumps(sc))
                c["sweep_k"] = k
                c["fixed"] = si
                yield c
            idx += 1


def _sweep_len(sc):
    key = json.dumps(sc, sort_keys=True)
    if key not in _N:
        c = json.loads(key)
        c["sweep_k"] = "count"
        oc = run_case(c)
        _N[key] = oc.summary.get("sweep_lines", 0)
    return _N[key]


class World:
    def __init__(self, case, work):
        self.case = case
        self.work = work
        self.root = os.path.join(work, "proj")
        self.ids = projgen.idents(case)
        self.git = case.get("git") == "git"
        self.hashes = []
        self.head = None
        self.dirty = False
        self.known = {}      # (task, ts) -> {"commit", "dirty", "snap"}
        self.archives = []   # (path, set of (task, ts))
        self.clock = 1000.0
        self.v = []
        self.labels = set()
        self.nontrivial = False
        projgen.write_project(self.root, case, config="" if self.git else "disable_git = true\n")
        if self.git:
            gitgen.git(self.root, "init", "-q", "-b", "main")
            with open(os.path.join(self.root, "tracked.txt"), "w") as f:
                f.write("v0\n")
            with open(os.path.join(self.root, ".gitignore"), "w") as f:
                f.write("cond-out/\n")
            gitgen.git(self.root, "add", "tracked.txt", ".gitignore")
            self.commit()

    def commit(self):
        gitgen.git(self.root, "commit", "-q", "--allow-empty", "-m", "c%d" % len(self.hashes), "-a", date=1600000000 + 60 * len(self.hashes))
        self.head = gitgen.git(self.root, "rev-parse", "HEAD")
        self.hashes.append(self.head)
        self.dirty = False

    def git_step(self, action):
        if not self.git:
            return
        if action == "commit":
            with open(os.path.join(self.root, "tracked.txt"), "a") as f:
                f.write("c%d\n" % len(self.hashes))
            self.commit()
            self.labels.add("head_moved")
        elif action == "dirty":
            with open(os.path.join(self.root, "tracked.txt"), "a") as f:
                f.write("uncommitted\n")
            self.dirty = True
        elif action == "dirty_staged":
            # an uncommitted change that is completely staged (work tree == index != HEAD)
            with open(os.path.join(self.root, "tracked.txt"), "a") as f:
                f.write("staged\n")
            gitgen.git(self.root, "add", "tracked.txt")
            self.dirty = True
            self.labels.add("dirty_only_in_index")
        elif action == "clean":
            gitgen.git(self.root, "reset", "-q", "--hard", "HEAD")
            self.dirty = False
        elif action == "touch":
            # same content, new modification time (an editor save without changes, cp -p, rsync): not a change
            p = os.path.join(self.root, "tracked.txt")
            data = open(p, "rb").read()
            with open(p, "wb") as f:
                f.write(data)
            self.ntouch = getattr(self, "ntouch", 0) + 1
            os.utime(p, (1500000000 + 100 * self.ntouch, 1500000000 + 100 * self.ntouch))
            self.labels.add("touched_but_unchanged")
        elif action == "checkout_prev" and len(self.hashes) >= 2 and not self.dirty:
            gitgen.git(self.root, "checkout", "-q", self.hashes[-2])
            self.head = self.hashes[-2]
            self.labels.add("head_moved")

    def declared(self, task_id):
        i = self.ids.index(task_id) if task_id in self.ids else None
        if i is None:
            return None, None
        t = self.case["tasks"][i]
        return list(t.get("args", [])), {k: x for k, x in t.get("opts", [])}

    def invariant(self, step_no, step, res):
        """The on-disk invariant, evaluated with a fresh connection."""
        rows = projgen.read_rows(self.root)
        what = "after step %d (%s%s)" % (step_no, step["op"], ", killed" if res is not None and res.get("status") == "killed" else "")
        ok_execs = {}
        if res is not None and step["op"] == "run":
            exits = {e["pid"]: e["status"] for e in res.get("events", []) if e["e"] == "exit"}
            for e in res.get("events", []):
                if e["e"] == "spawn" and exits.get(e["pid"]) == 0:
                    ok_execs[e["env"]["COND_OUT"]] = e["task"]
        for task, ts, commit, dirty in rows:
            d = projgen.version_dir(self.root, task, ts)
            key = (task, ts)
            if not os.path.isdir(d):
                self.v.append(("row_without_directory", "%s: version %s@%d is recorded but %s does not exist" % (what, task, ts, os.path.relpath(d, self.root))))
                continue
            names = set(os.listdir(d))
            if key in getattr(self, "relaxed", ()) or step["op"] == "run" and key not in self.known and any(
                    o.get("rmout") and self.ids[int(i)] == task for i, o in step.get("outcomes", {}).items()):
                self.relaxed = getattr(self, "relaxed", set()) | {key}     # (also when later steps look at this version again)
                # the command removed its own output directory while Conductor's tee threads were creating the log files in
                # it: what is left of the directory is the command's doing; only its existence is demanded of the version
                self.labels.add("version_of_a_command_that_removed_its_output")
                self.known[key] = {"commit": commit, "dirty": dirty, "snap": trees.snapshot(d)}
                continue
            if "done" not in names:
                self.v.append(("row_with_unfinished_output", "%s: recorded version %s@%d does not hold the task's finished output (%s)" % (what, task, ts, sorted(names))))
            for log in ("stdout.log", "stderr.log"):
                if log not in names:
                    self.v.append(("row_without_logs", "%s: recorded version %s@%d lacks %s" % (what, task, ts, log)))
            args, opts = self.declared(task)
            if args is not None:
                for fname, decl in (("args.json", args), ("options.json", opts)):
                    p = os.path.join(d, fname)
                    if decl:
                        self.labels.add("args_and_options_recorded")
                        try:
                            got = json.load(open(p))
                        except Exception:  # noqa
                            got = "<missing or unreadable>"
                        if got != decl:
                            self.v.append(("row_without_records", "%s: recorded version %s@%d: %s is %r, declared %r" % (what, task, ts, fname, got, decl)))
                    elif os.path.isfile(p):     # (a DIRECTORY of that name is the command's own doing, outcome argsdir)
                        self.v.append(("record_for_empty_declaration", "%s: %s@%d has %s although nothing is declared" % (what, task, ts, fname)))
            if key in self.known:
                k = self.known[key]
                if (commit, dirty) != (k["commit"], k["dirty"]):
                    self.v.append(("row_metadata_changed", "%s: %s@%d now carries (%s, %s), was recorded with (%s, %s)" % (what, task, ts, commit, dirty, k["commit"], k["dirty"])))
                continue
            # a new row: must come from an execution of this step that exited 0
            if step["op"] != "run" or d not in ok_execs:
                self.v.append(("row_for_unsuccessful_execution", "%s: new version %s@%d was recorded but no execution of it exited 0 in this step" % (what, task, ts)))
            want = (self.head if self.git else None, self.dirty if self.git else False)
            if (commit, dirty) != want:
                self.v.append(("row_wrong_commit_or_dirty", "%s: %s@%d recorded with (%s, dirty=%s); this invocation ran at HEAD=%s dirty=%s" % (
                    what, task, ts, commit, dirty, want[0], want[1])))
            if dirty:
                self.labels.add("dirty_flag_true")
            self.known[key] = {"commit": commit, "dirty": dirty, "snap": trees.snapshot(d)}
        return rows


def run_case(case):
    work = projgen.new_scratch("c06")
    try:
        return _run(case, work)
    finally:
        projgen.rm(work)


def _kill_k(w, argv, kspec, frac, files, pre):
    """Dry run on a copy of the project to learn the number of executed lines."""
    copy = os.path.join(w.work, "dry")
    shutil.copytree(w.root, copy, symlinks=True)
    try:
        res = run_cond(copy, argv, kspec=kspec, inject={"mode": "count", "files": files}, pre=pre)
        n = res.get("lines", 0)
    finally:
        shutil.rmtree(copy, ignore_errors=True)
    return n


def _run(case, work):
    w = World(case, work)
    summary = {"steps": []}
    sweep_k = case.get("sweep_k")
    for i, step in enumerate(case["steps"]):
        op = step["op"]
        res = None
        argv = None
        kspec = None
        if op == "git":
            w.git_step(step["action"])
            summary["steps"].append("git " + step["action"])
            continue
        if op == "run":
            c2 = dict(case)
            c2["target"] = step["target"] if step["target"] < len(case["tasks"]) else 0
            c2["flags"] = step["flags"]
            c2["outcomes"] = step["outcomes"]
            c2["tape"] = step["tape"]
            argv = graph.argv_for(c2)
            kspec = graph.kernel_spec(c2, w.clock)
            kspec["files"] = FILES
            w.clock += 7.0
        elif op == "archive":
            path = os.path.join(work, "arch%d.tar.gz" % len(w.archives))
            argv = ["archive", "-o", path] + (["--latest"] if step.get("latest") else [])
        elif op in ("restore", "wipe_restore"):
            if not w.archives:
                summary["steps"].append(op + " (no archive yet)")
                continue
            path, content = w.archives[-1]
            if op == "wipe_restore":
                shutil.rmtree(os.path.join(w.root, "cond-out"), ignore_errors=True)
                w.labels.add("restore_after_wipe")
            argv = ["restore", path]
            if step.get("retry"):
                w.labels.add("restore_repeated_after_a_killed_restore")
        elif op == "gc":
            argv = ["gc"]
        elif op == "clean":
            argv = ["clean", "-f"]
        inject = None
        kill = step.get("kill")
        files = _files(step.get("deep"))
        order = step.get("order")
        pre = (lambda res_, order=order: fsorder.install(order)) if order not in (None, "fs") else None
        if kill == "sweep":
            if sweep_k == "count":
                dry = os.path.join(w.work, "dry")
                shutil.copytree(w.root, dry, symlinks=True)
                res = run_cond(dry, argv, kspec=kspec, inject={"mode": "count", "files": files}, pre=pre)
                shutil.rmtree(dry, ignore_errors=True)
                summary["sweep_lines"] = res.get("lines", 0)
                continue
            kill_at = sweep_k
            inject = {"mode": "kill", "at": kill_at, "files": files}
        elif kill is not None:
            n = _kill_k(w, argv, kspec, kill, files, pre)
            if n > 0:
                inject = {"mode": "kill", "at": 1 + kill * n // 1000, "files": files}
        rows_before_step = projgen.read_rows(w.root)
        res = run_cond(w.root, argv, kspec=kspec, inject=inject, timeout=180, pre=pre)
        killed = res["status"] == "killed"
        if res.get("uncaught") and not killed:
            # not part of this property (e.g. a kill inside VersionIndex.create_or_load leaves an index file without
            # its table and later commands die with sqlite3.OperationalError); noted, the invariant is still evaluated
            w.labels.add("later_command_crashed:" + res["uncaught"])
        if killed:
            inj = res.get("inject") or {}
            ev = res.get("events", [])
            spawned = any(e["e"] == "spawn" for e in ev)
            if op == "run" and spawned:
                w.labels.add("kill_during_run_after_spawn")
                w.nontrivial = True
                if any(e["e"] == "exit" and e.get("status") == 0 for e in ev):
                    w.labels.add("kill_between_exit_and_record")
            if op in ("restore", "wipe_restore") and any(
                    os.path.isdir(projgen.version_dir(w.root, t, ts)) for (t, ts) in w.archives[-1][1]):
                w.labels.add("kill_during_restore_after_copy")
                w.nontrivial = True
            if op == "gc":
                w.labels.add("kill_during_gc")
            if op == "clean" and rows_before_step:
                left = [r for r in rows_before_step if os.path.isdir(projgen.version_dir(w.root, r[0], r[1]))]
                if len(left) < len(rows_before_step) or not os.path.exists(projgen.index_path(w.root)):
                    w.labels.add("kill_during_clean_partway")
                    w.nontrivial = True
            if inj.get("file", "").endswith("shutil.py"):
                w.labels.add("kill_inside_shutil")
        rows = w.invariant(i, step, res)
        if op == "run" and not killed:
            exits = [e for e in res.get("events", []) if e["e"] == "exit" and not e.get("foreign")]
            if any("argsdir" in o for o in step["outcomes"].values()):
                w.labels.add("command_left_directories_named_like_the_records")
            if any(o.get("rmout") for o in step["outcomes"].values()):
                w.labels.add("command_removed_its_output_directory")
            if any(e["status"] != 0 for e in exits):
                w.labels.add("nonzero_exit_not_recorded")
                if any(e["status"] == 0 and e["task"] and w.case["tasks"][w.ids.index(e["task"])]["kind"] == "exp" for e in exits if e["task"] in w.ids):
                    w.nontrivial = True
        if op == "archive" and not killed and res["status"] == 0:
            w.archives.append((path, {(t, ts) for t, ts, _, _ in rows} if not step.get("latest") else
                               {(t, ts) for t, ts, _, _ in rows if ts == max(x[1] for x in rows if x[0] == t)}))
        summary["steps"].append({"argv": argv, "status": res["status"], "killed_at": (res.get("inject") or {}).get("func") if killed else None,
                                 "rows": len(rows)})
        if len(w.v) > 6:
            break
    seen, uv = set(), []
    for s in w.v:
        if s[0] not in seen:
            seen.add(s[0])
            uv.append(s)
    return Outcome(uv, sorted(w.labels), w.nontrivial, summary)
