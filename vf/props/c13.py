"""C13 — gc removes exactly the unrecorded experiment outputs."""
import os

from hypothesis import strategies as st

from .. import model, projgen, trees
from ..isolate import run_cond
from ..runner import Outcome

ID = "C13"
LEVEL = "exploration"
RULE = ("Hypothesis-generated cond-out trees: package directories over the identifier alphabet to depth 3 (incl. the root "
        "package and a leftover archive-tmp), in each any of: recorded and unrecorded experiment dirs <name>.task.<ts>, "
        "<name>.task dirs, plain files incl. files named like task directories, look-alikes with timestamp 0 / leading "
        "zero; INSIDE task output dirs nested y.task.7 / z.task dirs and content; index rows = generated subset of the "
        "experiment dirs + rows without directory + same name/timestamp under a different package; flags none/-n/-v/-n -v. "
        "Oracle = independently computed deletion set; everything else compared by tree snapshot (names, types, bytes) and "
        "row set. Non-trivial = expected deletion set non-empty AND >=1 look-alike that must survive (nested in a task "
        "dir, a file, a recorded sibling with the same name, or the same name/ts recorded under another package). "
        "Distinct = SHA-1 of case JSON."
        " Also generated: symbolic links planted in cond-out (to a directory outside, an alias of a package, a link named like a version) and directories whose names end in a newline - none of them may be deleted, listed or traversed."
        " Task output directories may hold symbolic links (absolute and relative, at depth 1 and 2) to a data directory outside cond-out, to another task's output directory, to a file, and dangling ones: whatever they point to must be unchanged after gc."
        " In a quarter of the cases gc is run by an ordinary user (the forked child drops root) on a project it owns whose task outputs contain read-only directories.")
ASSUMPTIONS = ["only directories whose names are valid package names, task directories of either form, files, and symbolic "
               "links placed by hand are generated (stray directories with other names are not: the property does not say "
               "what they are); a symbolic link is never an experiment output directory, and nothing may be deleted or listed "
               "through one",
               "gc is invoked from the project root (cwd variation belongs to C17)"]
ESSENTIAL = ["nested_lookalike", "recorded_same_name_other_pkg", "depth>=2", "row_without_dir", "dry_run", "verbose",
             "root_package_exp", "file_lookalike", "nothing_to_delete", "name_with_dash_or_underscore",
             "name_with_trailing_newline", "symlink_inside_task_output", "run_by_an_ordinary_user_with_read_only_directories"]
TECHNIQUE = "property-based testing (Hypothesis) of the real CLI on generated cond-out trees; independently computed deletion set + tree snapshots as oracle"
LEVEL_TEXT = "Randomised search over cond-out trees and index contents; exact-set oracle in both directions (deleted == expected, everything else byte-identical)."
LEVEL_NOTE = "Trusted: the deletion-set model in this file; vf/trees.py snapshots."

_NAMES = ["e", "x", "a-b", "_u", "T1", "9", "e2", "x-", "task", "cond-out"]
_PKGS = ["", "a", "b-1", "_c", "a/b", "a/b/c", "b-1/e", "archive-tmp", "archive-tmp/a"]


@st.composite
def _strategy(draw, tier):
    pkgs = draw(st.lists(st.sampled_from(_PKGS), min_size=1, max_size=4, unique=True))
    entries = []   # [pkg, kind, name, ts, recorded, inner]
    rows_extra = []
    for pkg in pkgs:
        n = draw(st.sampled_from([0, 1, 2, 3, 4, 5]))
        for _ in range(n):
            kind = draw(st.sampled_from(["exp", "exp", "exp", "exp", "task", "file", "filelike", "zero", "leadzero"]))
            name = draw(st.sampled_from(_NAMES))
            ts = draw(st.sampled_from([1, 5, 7, 10, 15, 100, 1700000000, 1700000001]))
            recorded = draw(st.booleans()) if kind == "exp" else False
            inner = draw(st.sampled_from(["none", "none", "files", "nested_exp", "nested_task", "nested_both", "links", "links"])) if kind in ("exp", "task") else "none"
            entries.append([pkg, kind, name, ts, recorded, inner])
    # rows without directories and same name/ts under another package
    for _ in range(draw(st.sampled_from([0, 0, 1, 2]))):
        rows_extra.append([draw(st.sampled_from(_PKGS[:7])), draw(st.sampled_from(_NAMES)), draw(st.sampled_from([1, 5, 7, 99]))])
    if entries and draw(st.booleans()):
        e = draw(st.sampled_from(entries))
        if e[1] == "exp":
            other = draw(st.sampled_from(_PKGS[:7]))
            rows_extra.append([other, e[2], e[3]])
    flags = draw(st.sampled_from([[], [], ["-n"], ["-v"], ["-n", "-v"], ["--dry-run"], ["--verbose"]]))
    return {"entries": entries, "rows_extra": rows_extra, "flags": flags,
            "stray_files": draw(st.booleans()),
            # directories whose names only LOOK like task output directories: a trailing newline is not part of any task name
            "newline_dirs": draw(st.sampled_from([False, False, True])),
            # gc run by an ordinary user on outputs that contain read-only directories (a Go module cache, a Nix/Bazel
            # style store, `chmod -R a-w` of intermediate results): the user owns them, gc has to get rid of them
            "readonly": draw(st.sampled_from([False, False, False, True])),
            # the order in which the versions were recorded (= the order in which the index hands them out): sorted by
            # task, or interleaved across packages as successive runs / restores produce it
            "row_order": draw(st.sampled_from([0, 1, 2, 3, 4, 5])),
            # manual additions: symbolic links placed in cond-out by hand
            "links": draw(st.sampled_from([[], [], [], ["outside"], ["alias"], ["tasklike"], ["outside", "alias", "tasklike"]]))}


def strategy(tier):
    return _strategy(tier)


def examples(tier):
    return 3000 if tier == "quick" else 200000


def _leaf(kind, name, ts):
    if kind == "exp":
        return "%s.task.%d" % (name, ts)
    if kind == "task":
        return "%s.task" % name
    if kind == "file":
        return "%s.txt" % name
    if kind == "filelike":
        return "%s.task.%d" % (name, ts)
    if kind == "zero":
        return "%s.task.0" % name
    if kind == "leadzero":
        return "%s.task.0%d" % (name, ts)


def build(root, case):
    out = os.path.join(root, "cond-out")
    os.makedirs(out, exist_ok=True)
    with open(os.path.join(root, "cond_config.toml"), "w") as f:
        f.write("disable_git = true\n")
    with open(os.path.join(root, "COND"), "w") as f:
        f.write("")
    rows = set()
    readonly_dirs = []
    made = {}   # relpath (under cond-out) -> kind ; first writer wins
    expected = set()
    labels = set()
    for pkg, kind, name, ts, recorded, inner in case["entries"]:
        leaf = _leaf(kind, name, ts)
        rel = os.path.join(pkg, leaf) if pkg else leaf
        if rel in made:
            continue
        # a package directory may not itself be inside / be a task dir: skip clashes with generated paths
        if any(rel == m or rel.startswith(m + "/") or m.startswith(rel + "/") for m in made):
            continue
        p = os.path.join(out, rel)
        if kind in ("file", "filelike"):
            os.makedirs(os.path.dirname(p), exist_ok=True)
            if os.path.isdir(p):
                continue
            with open(p, "w") as f:
                f.write("plain file " + rel)
            made[rel] = kind
            if kind == "filelike":
                labels.add("file_lookalike")
            continue
        os.makedirs(p, exist_ok=True)
        made[rel] = kind
        if inner in ("files", "nested_both"):
            trees.write_tree(p, [["out.txt", "data " + rel], ["sub/deep.bin", "\x00\x01\xff"]])
        if inner in ("nested_exp", "nested_both"):
            trees.write_tree(p, [["y.task.7", None], ["y.task.7/inner.txt", "nested"], ["sub/%s.task.%d" % (name, ts), None]])
            labels.add("nested_lookalike")
        if inner in ("nested_task", "nested_both"):
            trees.write_tree(p, [["z.task", None], ["z.task/k.txt", "k"]])
        if case.get("readonly") and kind in ("exp", "task"):
            trees.write_tree(p, [["cache/pkg/mod/f.txt", "read-only"], ["cache/pkg/mod/sub/g.txt", "g"]])
            readonly_dirs.append(p)
        if inner == "links":
            # what tasks do with their inputs: links (at depth 1 and 2) to a data directory outside cond-out, to the
            # output directory of another task (the previous entry, recorded or not, or a run_command output), to a
            # file, and a dangling one.  Deleting the directory that holds the links must not touch what they point to.
            labels.add("symlink_inside_task_output")
            ext = os.path.join(root, "inputs", "ref")
            os.makedirs(ext, exist_ok=True)
            with open(os.path.join(ext, "input.csv"), "w") as f:
                f.write("irreplaceable input data")
            os.makedirs(os.path.join(ext, "w.task.3"), exist_ok=True)
            with open(os.path.join(ext, "w.task.3", "kept.txt"), "w") as f:
                f.write("kept")
            ents = [["ref", "LINK:" + ext], ["deps/in/ref2", "LINK:" + ext], ["ref-file", "LINK:" + os.path.join(ext, "input.csv")],
                    ["gone", "LINK:/nonexistent/target"], ["own.txt", "own data"]]
            prev = [m for m, k in made.items() if k in ("exp", "task") and m != rel]
            if prev:
                ents.append(["dep-out", "LINK:" + os.path.join(out, prev[-1])])
                ents.append(["deps/rel-dep", "LINK:" + os.path.relpath(os.path.join(out, prev[-1]), os.path.join(p, "deps"))])
            trees.write_tree(p, ents)
        if kind == "exp":
            tid = "//%s:%s" % (pkg, name)
            if recorded:
                rows.add((tid, ts))
            if "-" in name or "_" in name:
                labels.add("name_with_dash_or_underscore")
            if pkg == "":
                labels.add("root_package_exp")
            if pkg.count("/") >= 1:
                labels.add("depth>=2")
    for pkg, name, ts in case["rows_extra"]:
        tid = "//%s:%s" % (pkg, name)
        rel = os.path.join(pkg, "%s.task.%d" % (name, ts)) if pkg else "%s.task.%d" % (name, ts)
        if made.get(rel) == "exp":
            continue  # would record an existing generated dir: keep `recorded` as generated
        rows.add((tid, ts))
        if rel not in made:
            labels.add("row_without_dir")
    for rel, kind in made.items():
        if kind != "exp":
            continue
        pkg, leaf = os.path.split(rel)
        name, _, ts = leaf.rpartition(".task.")
        tid = "//%s:%s" % (pkg, name)
        if (tid, int(ts)) not in rows:
            expected.add(rel)
            # same name recorded elsewhere / other timestamp
            if any(r[0] != tid and r[0].endswith(":" + name) and r[1] == int(ts) for r in rows):
                labels.add("recorded_same_name_other_pkg")
            if any(r[0] == tid for r in rows):
                labels.add("recorded_sibling_other_ts")
    if case.get("stray_files"):
        with open(os.path.join(out, "cond-archive+2020-01-01+00-00-00.tar.gz"), "wb") as f:
            f.write(b"\x1f\x8bnot really")
        with open(os.path.join(root, "x.task.5"), "w") as f:
            f.write("a file outside cond-out")
        os.makedirs(os.path.join(root, "src", "y.task.9"), exist_ok=True)
    if case.get("newline_dirs"):
        labels.add("name_with_trailing_newline")
        for nm in ("keep.task.5\n", "held.task\n"):
            os.makedirs(os.path.join(out, nm), exist_ok=True)
            with open(os.path.join(out, nm, "data.txt"), "w") as f:
                f.write("not a task output")
    for kind in case.get("links", []):
        labels.add("symlink_in_cond_out")
        if kind == "outside":
            # a link to a directory outside cond-out that holds something named like an experiment output
            ext = os.path.join(root, "datasets")
            os.makedirs(os.path.join(ext, "keep.task.4"), exist_ok=True)
            with open(os.path.join(ext, "keep.task.4", "data.bin"), "w") as f:
                f.write("precious")
            if not os.path.lexists(os.path.join(out, "reference")):
                os.symlink(ext, os.path.join(out, "reference"))
        elif kind == "alias":
            # an alias of a package directory: recorded versions seen through it must survive
            pk = next((p for p, k, *_ in case["entries"] if p and "/" not in p), None)
            if pk and os.path.isdir(os.path.join(out, pk)) and not os.path.lexists(os.path.join(out, "alias-of-pkg")):
                os.symlink(pk, os.path.join(out, "alias-of-pkg"))
        elif kind == "tasklike":
            tgt = os.path.join(root, "elsewhere")
            os.makedirs(tgt, exist_ok=True)
            with open(os.path.join(tgt, "f.txt"), "w") as f:
                f.write("x")
            if not os.path.lexists(os.path.join(out, "lnk.task.7")):
                os.symlink(tgt, os.path.join(out, "lnk.task.7"))
    if rows:
        import hashlib
        k = case.get("row_order", 0)
        ordered = sorted(rows) if k == 0 else sorted(rows, key=lambda r: hashlib.sha1(("%d|%s|%d" % (k, r[0], r[1])).encode()).hexdigest())
        if k and len({r[0].rpartition(":")[0] for r in rows}) > 1:
            labels.add("versions_recorded_in_interleaved_package_order")
        projgen.seed_rows(root, [(t, ts, None, False) for t, ts in ordered], make_dirs=False)
    else:
        projgen.seed_rows(root, [], make_dirs=False)
    if case.get("readonly"):
        labels.add("run_by_an_ordinary_user_with_read_only_directories")
        from ..isolate import chown_tree
        chown_tree(root)
        os.chmod(root, 0o755)
        for p in readonly_dirs:
            for sub in ("cache/pkg/mod/sub", "cache/pkg/mod", "cache/pkg"):
                os.chmod(os.path.join(p, sub), 0o555)
    return expected, rows, labels


def run_case(case):
    from ..isolate import source_usable_without_privileges
    if case.get("readonly") and (os.geteuid() != 0 or not source_usable_without_privileges()):
        # the harness itself is an ordinary user (it cannot hand the project to another one), or the tree under test lies
        # in a private directory
        case = dict(case, readonly=False)
    root = projgen.new_scratch("c13")
    try:
        expected, rows, labels = build(root, case)
        before = trees.snapshot(root)
        rows_before = projgen.read_rows(root)
        flags = case["flags"]
        from ..isolate import drop_privileges
        res = run_cond(root, ["gc"] + flags, pre=drop_privileges if case.get("readonly") else None)
        after = trees.snapshot(root)
        rows_after = projgen.read_rows(root)
        v = []
        dry = "-n" in flags or "--dry-run" in flags
        verbose = "-v" in flags or "--verbose" in flags
        if dry:
            labels.add("dry_run")
        if verbose:
            labels.add("verbose")
        if not expected:
            labels.add("nothing_to_delete")
        err = res["stderr"].decode("utf-8", "replace")
        if res["status"] != 0 or res.get("uncaught"):
            v.append(("gc_failed", "cond gc %s exited %r: %s" % (flags, res["status"], err[-300:])))
        removed_top = set()
        for k in before:
            if k not in after:
                top = k
                # the top-most removed ancestor
                while os.path.dirname(top) and os.path.dirname(top) not in after and os.path.dirname(top) in before:
                    top = os.path.dirname(top)
                removed_top.add(top)
        removed_rel = {os.path.relpath(t, "cond-out") for t in removed_top if t.startswith("cond-out/")}
        outside = {t for t in removed_top if not t.startswith("cond-out/")}
        if outside:
            v.append(("deleted_outside_cond_out", "gc removed %s" % sorted(outside)))
        want = set() if dry else expected
        for r in sorted(removed_rel - want):
            kind = "deleted_in_dry_run" if dry else "deleted_unexpected"
            v.append((kind, "gc %s removed cond-out/%s which must survive (rows=%s)" % (flags, r, sorted(rows))))
        for r in sorted(want - removed_rel):
            v.append(("not_deleted", "gc %s left the unrecorded experiment output cond-out/%s" % (flags, r)))
        # everything that survives is unchanged (index file may be touched by sqlite but rows must be equal)
        for k, val in before.items():
            if k in after and after[k] != val and not k.endswith("version_index.sqlite"):
                v.append(("modified", "gc modified %s" % k))
        for k in after:
            if k not in before:
                v.append(("created", "gc created %s" % k))
        if rows_after != rows_before:
            v.append(("rows_changed", "gc changed the recorded versions"))
        out = res["stdout"].decode("utf-8", "replace")
        listed = set()
        for ln in out.splitlines():
            for pre in ("Would delete ", "Deleting "):
                if ln.startswith(pre):
                    listed.add(os.path.normpath(ln[len(pre):]))
        if dry or verbose:
            want_listed = {os.path.join("cond-out", r) for r in expected}
            if listed != want_listed:
                v.append(("listing", "gc %s listed %s, a real gc deletes %s" % (flags, sorted(listed), sorted(want_listed))))
            if dry and any(ln.startswith("Deleting ") for ln in out.splitlines()):
                v.append(("listing_wording", "dry run printed 'Deleting'"))
        elif listed:
            v.append(("listing_unrequested", "gc without -n/-v listed %s" % sorted(listed)))
        nontrivial = bool(expected) and bool(labels & {"nested_lookalike", "file_lookalike", "recorded_same_name_other_pkg", "recorded_sibling_other_ts"})
        seen, uv = set(), []
        for s in v:
            if s[0] not in seen:
                seen.add(s[0])
                uv.append(s)
        return Outcome(uv, sorted(labels), nontrivial,
                       {"flags": flags, "expected": sorted(expected), "removed": sorted(removed_rel), "rows": sorted(rows)[:8]})
    finally:
        projgen.rm(root)
