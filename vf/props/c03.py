"""C03 — failures skip dependents, spare independents, and decide the exit status."""
import signal

from .. import graph, model, reallayer
from ..runner import Outcome

ID = "C03"
LEVEL = "exploration"
RULE = ("Hypothesis-generated graph cases x outcome maps with 0-4 non-success entries (exit code distinct per task, "
        "signal, launch failure via EAGAIN from fork or an exec-failure record) x schedule tapes x --jobs x "
        "{default, --stop-early}. Oracle = model fixed point of started/succeeded/failed/skipped over the needed "
        "set vs. spawn log, report sections, exit status and the killpg log. Non-trivial = >=1 failure that has >=1 "
        "transitive dependent in the needed set AND >=1 needed task independent of it. Distinct = SHA-1 of case JSON."
        " A quarter of the cases come from an experiment-heavy generator in which every second experiment is cached (failure propagation through pruned tasks); launch failures include a command with a NUL byte."
        + reallayer.RULE_NOTE)
ASSUMPTIONS = ["under --stop-early nothing is demanded about the 'Skipped' section (documentation does not define it)",
               "a SIGTERMed virtual child dies at once"]
ESSENTIAL = ["fail_exit", "fail_signal", "fail_launch_eagain", "fail_launch_enoent", "failure_through_group",
             "two_failures", "stop_early_with_inflight", "independent_task_still_runs", "all_succeed"]
TECHNIQUE = "property-based testing (Hypothesis) under a virtual kernel with generated failure maps; fixed-point reference model as oracle; one case in 16 runs real task processes (order read from one O_APPEND log, no clock)"
LEVEL_TEXT = ("Randomised search over graphs x failure sets x schedules; the printed report, spawn log, SIGTERM log and exit "
              "status of the real CLI are compared with an independent fixed-point model. Search, not proof.")
LEVEL_NOTE = "Trusted: (real-process share: vf/reallayer.py, the serialisation of O_APPEND writes) vf/kernel.py; model.outcome_fixed_point; report line grammar."


def strategy(tier):
    from hypothesis import strategies as st
    general = graph.graph_case(max_tasks=8 if tier == "quick" else 12, outcomes="some", max_bad=4,
                            p_seed_den=5, tape_max=50, tape_hi=31, flags=("again", "stop_early"),
                            jobs=(None, 1, 2, 2, 3, 3, 4, 5), rmout=True)
    # experiment-heavy graphs in which every second experiment is cached: chains of pruned tasks with shortcut edges
    cached = graph.graph_case(max_tasks=8 if tier == "quick" else 12, outcomes="some", max_bad=3, kind_weights=(2, 6, 1, 0),
                              p_seed_den=2, tape_max=50, tape_hi=31, densities=("dense", "sparse"), flags=("stop_early",),
                              jobs=(None, 2, 3, 3, 4))
    virtual = st.one_of(general, general, cached, graph.layered_case(flags=("stop_early",), p_fail_den=3), graph.sandwich_case(p_fail_den=3), graph.fan_case())
    real = st.one_of(reallayer.real_case(flags=("stop_early",)), reallayer.real_case(flags=("stop_early",), layered=True))
    return reallayer.mixed(virtual, real)


def examples(tier):
    return 3200 if tier == "quick" else 150000


def run_case(case):
    if case.get("layer") == "real":
        return check(case, reallayer.run_real(case))
    return graph.judge_ambiguous(case, graph.run_graph_case(case), check)


def literal_fixed_point(case, need, bad):
    """Property read literally: a task starts iff every needed task among its
    *transitive* dependencies (through any task, cached or not) succeeded."""
    started, succeeded, failed, skipped = set(), set(), set(), set()
    order = model.topo(case, set(range(len(case["tasks"]))))
    for x in order:
        if x not in need:
            continue
        td = model._reach_strict(case, x) & need
        if all(d in succeeded for d in td):
            started.add(x)
            (failed if x in bad else succeeded).add(x)
        else:
            skipped.add(x)
    return started, succeeded, failed, skipped


def check(case, res):
    obs = graph.Obs(case, res)
    ids = obs.ids
    v = []
    labels = ["real_processes"] if case.get("layer") == "real" else []
    if case.get("fdlimit"):
        labels.append("many_failures_under_a_descriptor_limit")
    if res["status"] in ("deadlock", "livelock"):
        return Outcome([], ["deadlock_ignored_here"], False, obs.brief())
    again = "again" in case["flags"]
    stop_early = "stop_early" in case["flags"]
    cached = {int(i) for i in case.get("seeded", {})}
    need, hidden = model.needed(case, case["target"], cached, again)
    bad = {int(i) for i in case.get("outcomes", {})} & need
    m_exec = model.outcome_fixed_point(case, need, bad)
    m_lit = literal_fixed_point(case, need, bad)
    started, succeeded, failed, skipped = m_lit
    for x in failed:
        o = case["outcomes"][str(x)]
        labels.append("fail_exit" if "exit" in o else "fail_signal" if "signal" in o else "fail_combine_conflict" if "conflict" in o else "fail_rmout" if "rmout" in o else "fail_launch_" + o["launch"])
        deps_of = [y for y in need if x in model._reach_strict(case, y)]
        indep = [y for y in need if y != x and x not in model._reach_strict(case, y) and y not in model._reach_strict(case, x)]
        if deps_of and indep:
            labels.append("failure_with_dependents_and_independents")
        if any(case["tasks"][y]["kind"] == "group" and x in model.dep_indices(case, y) for y in need):
            labels.append("failure_through_group")
    if len(failed) >= 2:
        labels.append("two_failures")
    if not failed:
        labels.append("all_succeed")
    if failed and succeeded:
        labels.append("independent_task_still_runs")

    executed = obs.executed()
    rep = model.parse_report(obs.stdout())
    stderr = obs.stderr()
    if res.get("uncaught") or "Traceback" in stderr:
        v.append(("traceback", "internal error instead of a diagnostic: %s" % (res.get("uncaught") or stderr[-300:])))

    if not stop_early:
        def diff(mdl, suffix):
            st_, su_, fa_, sk_ = mdl
            out = []
            want_exec = {ids[x] for x in st_}
            if executed != want_exec:
                extra, missing = sorted(executed - want_exec), sorted(want_exec - executed)
                if extra:
                    out.append(("started_despite_failed_dep" + suffix, "started although a (transitive) dependency failed or it is not needed: %s" % extra))
                if missing:
                    out.append(("independent_not_run" + suffix, "needed, no dependency failed, yet not executed: %s" % missing))
            rf = sorted(t for t, _ in rep["failed"])
            if rf != sorted(ids[x] for x in fa_):
                out.append(("failed_section" + suffix, "Failed task(s) lists %s, expected %s" % (rf, sorted(ids[x] for x in fa_))))
            rs = sorted(rep["skipped"])
            if rs != sorted(ids[x] for x in sk_):
                out.append(("skipped_section" + suffix, "Skipped task(s) lists %s, expected %s" % (rs, sorted(ids[x] for x in sk_))))
            return out
        d_lit = diff(m_lit, "")
        if d_lit:
            if m_lit != m_exec and not diff(m_exec, ""):
                labels.append("dep_only_via_cached_experiment")
                v += diff(m_lit, "_only_via_cached_experiment")
            else:
                v += d_lit
        # codes
        for t, msg in rep["failed"]:
            x = obs.idx_of.get(t)
            o = case.get("outcomes", {}).get(str(x))
            if o and "launch" not in o and "conflict" not in o and "rmout" not in o and "(%d)" % graph.expected_code(o) not in msg:
                v.append(("wrong_code", "%s reported %r, its process ended with %d" % (t, msg, graph.expected_code(o))))
        want_status = 1 if failed else 0
        if res["status"] != want_status:
            v.append(("exit_status", "exit status %r; %d needed task(s) failed" % (res["status"], len(failed))))
        if failed:
            if "ERROR:" not in stderr:
                v.append(("no_error_line", "non-zero exit without an ERROR: diagnostic"))
            if rep["done"]:
                v.append(("done_banner", "'Done!' printed although a task failed"))
        elif not rep["done"]:
            v.append(("no_done_banner", "all needed tasks succeeded but no 'Done!' banner"))
    else:
        fails = obs.lines("failed")
        if fails:
            tau = fails[0][0]
            first_failed = fails[0][2]
            late = [e["task"] for i, e in enumerate(obs.events) if i > tau and e["e"] in ("spawn",) and not e.get("late")]
            late += [m[2] for m in obs.lines("running") if m[0] > tau]
            if late:
                v.append(("started_after_first_failure", "--stop-early: %s started after the failure of %s was observed" % (sorted(set(late)), first_failed)))
            inflight = [p for p in obs.procs.values() if p["spawn"] < tau and (p["exit"] is None or p["exit"] > tau)]
            if inflight:
                labels.append("stop_early_with_inflight")
            for p in inflight:
                killed = [k for k in obs.kills if k[1] == p["ev"]["pid"] and k[2] == signal.SIGTERM]
                if not killed and case.get("layer") == "real":
                    # a real task may finish by itself between the failure and the SIGTERM; it is a violation only if it
                    # outlived cond (its E line comes after cond returned), which is `running_at_return` below
                    continue
                if not killed:
                    v.append(("not_terminated", "--stop-early: %s was still running at the first failure and never got SIGTERM" % p["task"]))
            if res["status"] != 1:
                v.append(("exit_status", "--stop-early: exit status %r after a failure" % (res["status"],)))
            if first_failed not in [t for t, _ in rep["failed"]]:
                v.append(("failed_section", "--stop-early: %s failed first but is not in the Failed task(s) section" % first_failed))
            if "ERROR:" not in stderr:
                v.append(("no_error_line", "non-zero exit without an ERROR: diagnostic"))
        else:
            if bad & m_exec[0]:
                v.append(("failure_not_observed", "a started task failed but no failure was reported"))
            elif res["status"] != 0:
                v.append(("exit_status", "exit status %r with no failure" % (res["status"],)))
        if res.get("kernel", {}).get("running_at_end"):
            v.append(("running_at_return", "task processes still running when cond run returned"))
    nontrivial = "failure_with_dependents_and_independents" in labels
    return Outcome(v, sorted(set(labels)), nontrivial, obs.brief())
