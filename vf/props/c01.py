"""C01 — dependencies finish successfully before a task starts."""
from .. import graph, model, reallayer
from ..runner import Outcome

ID = "C01"
LEVEL = "exploration"
RULE = ("Hypothesis-generated graph cases: 1-8 (thorough 12) tasks of all four kinds in nested packages, every "
        "possible edge present w.p. 1/2 and each dep list independently permuted (both :name and //pkg:name "
        "spellings), cache states, --again, --jobs absent/1..5, free parallelizable flags, outcome maps, and "
        "an integer schedule tape that chooses which running children exit at every scheduling point. "
        "Non-trivial = >=2 executed tasks related by a dependency AND (the tape-made completion order differs "
        "from spawn order OR >=2 task processes were in flight at once). Distinct = SHA-1 of case JSON."
        " A quarter of the cases come from an experiment-heavy generator in which every second experiment is cached (chains of pruned tasks with shortcut edges); the same task name may occur in different packages."
        + reallayer.RULE_NOTE)
ASSUMPTIONS = ["virtual time: order is the order of events in the kernel's log (any real completion order is "
               "producible by a tape)", "group tasks have no command/step of their own and are only checked as dependencies"]
ESSENTIAL = ["two_paths", "shortcut_dep_listed_after_sibling", "shortcut_dep_listed_before_sibling",
             "sync_op_in_closure", "cached_dep", "failed_dep", "inflight>=2", "completion_reordered"]
TECHNIQUE = "property-based testing (Hypothesis) of the real CLI under a virtual kernel; interval-order oracle over the event log vs. model transitive deps; one case in 16 runs real task processes (order read from one O_APPEND log, no clock)"
LEVEL_TEXT = ("Randomised search over graphs x listing orders x kinds x cache x jobs x completion orders; each case runs the "
              "real planner/executor and is judged by an interval-order predicate computed from an independent model of "
              "the dependency relation. Search, not proof.")
LEVEL_NOTE = "Trusted: (real-process share: vf/reallayer.py, the serialisation of O_APPEND writes) vf/kernel.py process emulation and event ordering; model.closure/transdeps."


def strategy(tier):
    from hypothesis import strategies as st
    general = graph.graph_case(max_tasks=8 if tier == "quick" else 12, outcomes="some", max_bad=2,
                            tape_max=50, tape_hi=31, p_par=0.875, p_seed_den=5,
                            jobs=(None, 1, 2, 2, 3, 3, 3, 4, 5))
    # experiment-heavy graphs in which every second experiment is cached: chains of pruned tasks with shortcut edges
    cached = graph.graph_case(max_tasks=8 if tier == "quick" else 12, outcomes="some", max_bad=2, kind_weights=(2, 6, 1, 0),
                              tape_max=50, tape_hi=31, p_par=0.875, p_seed_den=2, densities=("dense", "sparse"),
                              jobs=(None, 2, 3, 3, 4), flags=())
    virtual = st.one_of(general, general, cached, graph.layered_case(flags=("again",), p_fail_den=6), graph.sandwich_case())
    real = st.one_of(reallayer.real_case(flags=("again",)), reallayer.real_case(layered=True))
    return reallayer.mixed(virtual, real)


def examples(tier):
    return 3200 if tier == "quick" else 150000


def run_case(case):
    if case.get("layer") == "real":
        return check(case, reallayer.run_real(case))
    return check(case, graph.run_graph_case(case))


def check(case, res):
    obs = graph.Obs(case, res)
    ids = obs.ids
    v = []
    labels = graph.shape_labels(case) + (["real_processes"] if case.get("layer") == "real" else [])
    if res["status"] in ("deadlock", "livelock"):
        return Outcome([], labels + ["deadlock_ignored_here"], False, obs.brief())
    executed = obs.executed()
    iv = {t: obs.intervals(t) for t in executed}
    related = False
    ex_idx = {obs.idx_of[t] for t in executed}

    def exec_path(a, b):
        """Is there a dependency path a -> b whose intermediate tasks were all executed?"""
        stack, seen = [a], set()
        while stack:
            x = stack.pop()
            for d in model.dep_indices(case, x):
                if d == b:
                    return True
                if d in ex_idx and d not in seen:
                    seen.add(d)
                    stack.append(d)
        return False

    for t in sorted(executed):
        x = obs.idx_of[t]
        if case["tasks"][x]["kind"] == "group":
            continue
        t_start = iv[t][0][0]
        for u_i in sorted(model._reach_strict(case, x)):
            u = ids[u_i]
            if u not in iv:
                continue
            related = True
            via = "" if exec_path(x, u_i) else "_only_via_cached_experiment"
            if via:
                labels.append("dep_only_via_cached_experiment")
            for (s, e, status) in iv[u]:
                if s > t_start:
                    v.append(("dep_started_after_dependent" + via,
                              "%s (dependency of %s) started an execution after %s had started" % (u, t, t)))
                elif e is None or e > t_start:
                    v.append(("overlap" + via, "%s started while its dependency %s was still running" % (t, u)))
                elif status != 0:
                    v.append(("started_after_failed_dep" + via,
                              "%s started although its dependency %s did not exit 0 (status %s)" % (t, u, status)))
    # labels about the schedule
    stats = res.get("kernel", {}).get("stats", {})
    if stats.get("max_running", 0) >= 2:
        labels.append("inflight>=2")
    procs = sorted(obs.procs.values(), key=lambda p: p["spawn"])
    exits = [p["exit"] for p in procs if p["exit"] is not None]
    if exits != sorted(exits):
        labels.append("completion_reordered")
    if case.get("seeded") and "again" not in case.get("flags", []):
        clo = model.closure(case, case["target"])
        if any(int(i) in clo for i in case["seeded"]):
            labels.append("cached_dep")
    if any(p["status"] not in (0, None) for p in procs) or obs.launchfails:
        labels.append("failed_dep")
    nontrivial = related and ("inflight>=2" in labels or "completion_reordered" in labels)
    # dedupe
    seen, uv = set(), []
    for s in v:
        if s not in seen:
            seen.add(s)
            uv.append(s)
    return Outcome(uv, labels, nontrivial, obs.brief())
