"""C09 — runs always terminate with every planned task accounted for."""
from .. import graph, model, reallayer
from ..runner import Outcome

ID = "C09"
LEVEL = "exploration"
RULE = ("Hypothesis-generated graph cases (1-8 tasks of all kinds, any dep listing order, "
        "cache state, --jobs 1..5/absent, exit-code/signal/launch-failure outcome maps, 0-2 foreign "
        "children) x integer schedule tapes driving a virtual kernel under the real executor, "
        "SigchldHelper and CPython Popen lifecycle. Non-trivial = the schedule contained >=2 exits "
        "coalesced into one handler run, or an exit before the pid was registered, or an exit "
        "adjacent to a Popen-initiated waitpid (handler after it), or a foreign child's exit, or an "
        "exit while the handler's own waitpid loop ran. Distinct = SHA-1 of the canonical case JSON."
        + reallayer.RULE_NOTE + " A real-process case is non-trivial when >=2 task processes existed at once; there a hang is reported only "
        "when cond has not returned 60 s after its start although every task process it started has exited and it has no child left.")
ASSUMPTIONS = [
    "schedules are those of the DESIGN 2.3 model: children exit at syscall boundaries of the main "
    "thread; the Python SIGCHLD handler runs immediately before or immediately after that syscall",
    "liveness is decided as: main thread blocked in read()/select() with no running child whose exit could still "
    "interrupt it (or polling forever although no child is running) = the run would never return",
]
ESSENTIAL = ["coalesced", "exit_before_reg", "foreign_exit", "exit_in_handler", "exit_right_before_blocking_read"]
NONTRIVIAL = ESSENTIAL + ["popen_race"]


def strategy(tier):
    from hypothesis import strategies as st
    general = graph.graph_case(max_tasks=8 if tier == "quick" else 10, outcomes="some",
                            foreign=True, tape_max=60, tape_hi=31, rmout=True)
    virtual = st.one_of(general, general, graph.layered_case(flags=(), p_fail_den=4), graph.sandwich_case(), graph.fan_case(sizes=(10, 14, 20)))
    real = st.one_of(reallayer.real_case(), reallayer.real_case(layered=True), reallayer.real_case(max_tasks=9, jobs=(3, 4, 5, 8)))
    return reallayer.mixed(virtual, real)


def examples(tier):
    return 4000 if tier == "quick" else 200000


def run_case(case):
    if case.get("layer") == "real":
        return check(case, reallayer.run_real(case))
    res = graph.run_graph_case(case)
    return graph.judge_ambiguous(case, res, check)


def check(case, res):
    obs = graph.Obs(case, res)
    v = []
    ids = obs.ids
    stats = res.get("kernel", {}).get("stats", {})
    labels = [k for k in NONTRIVIAL if stats.get(k)]
    labels += graph.shape_labels(case)
    if case.get("layer") == "real":
        labels.append("real_processes")
        if stats.get("max_running", 0) >= 2:
            labels.append("real_inflight>=2")
    again = "again" in case.get("flags", [])
    cached = {int(i) for i in case.get("seeded", {})}
    need, hidden = model.needed(case, case["target"], cached, again)
    bad = {int(i) for i in case.get("outcomes", {})}

    if res["status"] in ("deadlock", "livelock"):
        v.append((res["status"], "cond run never returns: main thread blocked waiting for a child "
                  "completion although no task process is running (%s)" % res.get("detail")))
        return Outcome(v, labels, True, obs.brief())
    if res.get("uncaught"):
        v.append(("uncaught:" + res["uncaught"], "internal error escaped: %s" % res["uncaught_tb"][-400:]))
    k = res.get("kernel", {})
    if k.get("running_at_end"):
        v.append(("running_at_return", "cond run returned while task processes were still running"))

    # every needed task: exactly one reported outcome
    started, succeeded, failed, skipped = model.outcome_fixed_point(case, need, bad & need)
    for x in sorted(need):
        t = ids[x]
        n_ok = len(obs.lines("ok", t))
        n_fail = len(obs.lines("failed", t))
        n_skip = len(obs.lines("skipping", t))
        if n_ok + n_fail + n_skip != 1:
            v.append(("outcome_count", "task %s has %d outcomes reported (ok=%d failed=%d skipped=%d)"
                      % (t, n_ok + n_fail + n_skip, n_ok, n_fail, n_skip)))
            continue
        want = "ok" if x in succeeded else ("failed" if x in failed else "skipping")
        got = "ok" if n_ok else ("failed" if n_fail else "skipping")
        if want != got:
            v.append(("attribution", "task %s reported as %s, its assigned outcome means %s" % (t, got, want)))
    # attribution of exit codes
    rep = model.parse_report(obs.stdout())
    rep_failed = dict(rep["failed"])
    for x in sorted(failed):
        t = ids[x]
        o = case["outcomes"][str(x)]
        if "launch" in o or "conflict" in o or "rmout" in o:
            continue
        msg = rep_failed.get(t)
        if msg is None:
            v.append(("attribution", "failed task %s not listed in the failure report" % t))
        elif "(%d)" % graph.expected_code(o) not in msg:
            v.append(("attribution", "failed task %s reported with %r, expected code %d"
                      % (t, msg, graph.expected_code(o))))
    want_status = 0 if not failed else 1
    if res["status"] != want_status:
        v.append(("exit_status", "exit status %r, expected %d" % (res["status"], want_status)))
    nontrivial = bool(set(labels) & set(NONTRIVIAL + ["real_inflight>=2"]))
    return Outcome(v, labels, nontrivial, obs.brief())

TECHNIQUE = "property-based testing (Hypothesis) over graph cases x schedule tapes, virtual-kernel schedule control, deadlock detector as bounded-liveness oracle; one case in 16 runs real task processes (order read from one O_APPEND log, no clock)"
LEVEL_TEXT = ("Randomised search over task graphs, outcome maps and integer schedule tapes; the real executor, "
              "SigchldHelper and CPython Popen run against a simulated process table so a lost completion is a "
              "deterministic DEADLOCK verdict. Not exhaustive: absence of hangs is only shown for explored schedules.")
LEVEL_NOTE = ("Trusted: the schedule model of DESIGN §2.3 (exits at main-thread syscall boundaries, handler before/after), "
              "the kernel emulation in vf/kernel.py, CPython 3.12 subprocess semantics.")
