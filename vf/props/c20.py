"""C20 — task identifiers: one grammar, canonical form, distinct output locations."""
import itertools
import os
import pathlib

from hypothesis import strategies as st

from .. import model, projgen
from ..runner import Outcome

ID = "C20"
LEVEL = "exploration"
ALPHABET = ["a", "Z", "0", "-", "_", "/", ":", " ", "\n", "\t", ".", "é"]
RULE = ("(enumerated) every string of length <= 5 (thorough: <= 6) over the 12-symbol alphabet "
        "{a Z 0 - _ / : space \\n \\t . e-acute} fed to is_name_valid, from_str(require_prefix=True/False) and "
        "from_relative_str, plus a character-class sweep (every ASCII code point and 14 non-ASCII characters inserted at / substituted into every position of 8 template strings), compared with a hand-written character-level recogniser of the documented grammar (one "
        "don't-care class: a single trailing '/' after the last path segment); accepted strings are round-tripped "
        "through str(). (generated) valid identifiers of up to 5 segments x 12 chars with 1-3 random edits, sets of "
        "(identifier, version) pairs for injectivity of output directories, ':name' deps resolved through a real COND "
        "file in a generated package, `cond where -f` samples. Non-trivial = the string is accepted by some recogniser "
        "or becomes accepted after deleting one character (it lies on the grammar boundary); counted per string, all "
        "enumerated strings are distinct by construction."
        " A quarter of the generated cases use LONG names (20-234 characters, the file system allows 239 for <name>.task.<10 digits>) that share a long prefix and differ in a short suffix.")
ASSUMPTIONS = ["the documented grammar is: name = [A-Za-z0-9_-]+ ; identifier = optional //, segments joined by single '/', ':' name"]
ESSENTIAL = ["trailing_newline", "leading_space", "double_slash_inside", "empty_segment", "no_prefix", "root_package",
             "generated_valid", "generated_mutated", "injectivity_set", "relative_dep_in_cond_file", "cli_where", "charclass_sweep", "long_names_sharing_a_prefix", "relative_deps_same_names_in_several_files"]
EXHAUSTIVE = {"quick": "all strings of length <= 5 over the 12-symbol alphabet (271,453 strings x 4 entry points)",
              "thorough": "all strings of length <= 6 over the 12-symbol alphabet (3,257,437 strings x 4 entry points)"}
TECHNIQUE = "exhaustive small-scope enumeration of strings against a hand-written recogniser + Hypothesis-generated long identifiers, round-trip and injectivity checks"
LEVEL_TEXT = ("Exhaustive within the stated string-length/alphabet bound (every string, every entry point), Hypothesis search "
              "beyond it. The alphabet has one representative per character class of the grammar plus the separators and the "
              "classic near-misses (newline, tab, space, dot, non-ASCII letter).")
LEVEL_NOTE = "Trusted: model.accepts_name / parse_identifier (hand-written, no regular expressions)."


def _api():
    from conductor.task_identifier import TaskIdentifier
    from conductor.errors import InvalidTaskIdentifier
    return TaskIdentifier, InvalidTaskIdentifier


def check_string(s, v, labels):
    """Compare all four entry points on one string.  Appends to v (max a few)."""
    TI, Invalid = _api()
    # 1. names
    want = model.accepts_name(s)
    try:
        got = TI.is_name_valid(s)
    except Exception as ex:  # noqa
        got = "raised %s" % type(ex).__name__
    if got != want:
        v.append(("name_verdict" + _cls(s), "is_name_valid(%r) = %r, grammar says %r" % (s, got, want)))
    # 2/3. identifiers
    for req in (True, False):
        m = model.parse_identifier(s, require_prefix=req)
        try:
            ident = TI.from_str(s, require_prefix=req)
            acc = True
        except Invalid:
            acc = False
        except Exception as ex:  # noqa
            v.append(("identifier_wrong_exception", "from_str(%r, require_prefix=%s) raised %s" % (s, req, type(ex).__name__)))
            continue
        if m is None:
            if acc:
                v.append(("identifier_accepts_invalid" + _cls(s), "from_str(%r, require_prefix=%s) accepted a string outside the grammar" % (s, req)))
            continue
        segs, name, trailing = m
        if not acc:
            if not trailing:
                v.append(("identifier_rejects_valid", "from_str(%r, require_prefix=%s) rejected a valid identifier" % (s, req)))
            continue
        if tuple(ident.path.parts) != segs or ident.name != name:
            v.append(("identifier_misparsed", "from_str(%r) -> path=%r name=%r, expected %r %r" % (s, ident.path.parts, ident.name, segs, name)))
            continue
        # round trip
        printed = str(ident)
        try:
            again = TI.from_str(printed)
            if not (again == ident and hash(again) == hash(ident) and str(again) == printed):
                v.append(("round_trip", "str(from_str(%r)) = %r parses to a different identifier" % (s, printed)))
        except Invalid:
            v.append(("round_trip", "str(from_str(%r)) = %r is not parseable" % (s, printed)))
        canon = "//" + "/".join(segs) + ":" + name
        if printed != canon:
            v.append(("canonical_form", "from_str(%r) prints as %r, canonical form is %r" % (s, printed, canon)))
    # 4. relative
    mr = model.parse_relative(s)
    try:
        ident = TI.from_relative_str(s, pathlib.Path("p", "q"))
        acc = True
    except Invalid:
        acc = False
    except Exception as ex:  # noqa
        v.append(("relative_wrong_exception", "from_relative_str(%r) raised %s" % (s, type(ex).__name__)))
        return
    if acc != (mr is not None):
        v.append(("relative_verdict" + _cls(s), "from_relative_str(%r) %s, grammar says %s" % (
            s, "accepted" if acc else "rejected", "valid" if mr is not None else "invalid")))
    elif acc and (ident.name != mr or tuple(ident.path.parts) != ("p", "q")):
        v.append(("relative_misparsed", "from_relative_str(%r, p/q) -> %s" % (s, ident)))


def _cls(s):
    if s.endswith("\n") and len(s) > 1:
        return "_trailing_newline"
    return ""


def _any_accept(s):
    return (model.accepts_name(s) or model.parse_identifier(s, False) is not None
            or model.parse_relative(s) is not None)


def _boundary(s):
    if _any_accept(s):
        return True
    return any(_any_accept(s[:i] + s[i + 1:]) for i in range(len(s)))


def enumerate_cases(tier, w, nworkers):
    maxlen = 5 if tier == "quick" else 6
    prefixes = [""] + ["".join(p) for p in itertools.product(ALPHABET, repeat=2)]
    for i, pre in enumerate(prefixes):
        if i % nworkers == w:
            yield {"enum_prefix": pre, "maxlen": maxlen}
    # character-class sweep: every ASCII code point (and a few others) inserted at / substituted into
    # every position of template strings of each form
    for j, tpl in enumerate(SWEEP_TEMPLATES):
        if j % nworkers == w:
            yield {"sweep_template": tpl}


SWEEP_TEMPLATES = ["ab", "a-_9", "//ab/cd:ef", "//:ab", ":ab", "ab/cd:ef", "//a/b/c:d", "ab:cd"]
SWEEP_CHARS = [chr(c) for c in range(0, 128)] + ["\x7f", "\x80", "\xa0", "é", "ß", "İ", "а", "０", "Ａ", "²", "\u200b", "\u2028", "\ud7ff", "\U0001f600"]


def run_sweep(case):
    tpl = case["sweep_template"]
    v, labels = [], set()
    n = nt = 0
    for ch in SWEEP_CHARS:
        for pos in range(len(tpl) + 1):
            for s in ([tpl[:pos] + ch + tpl[pos:]] + ([tpl[:pos] + ch + tpl[pos + 1:]] if pos < len(tpl) else [])):
                n += 1
                check_string(s, v, labels)
                if _boundary(s):
                    nt += 1
        if len(v) > 40:
            break
    seen, uv = set(), []
    for sig, text in v:
        if sig not in seen:
            seen.add(sig)
            uv.append((sig, text))
    oc = Outcome(uv, ["charclass_sweep"], False, {"template": tpl, "strings": n})
    oc.evals = n
    oc.nontrivial_n = nt
    return oc


def run_enum(case):
    pre, maxlen = case["enum_prefix"], case["maxlen"]
    v, labels = [], set()
    n = nt = 0
    if pre == "":
        strings = [""] + ALPHABET[:]
    else:
        strings = (pre + "".join(t) for k in range(0, maxlen - 1) for t in itertools.product(ALPHABET, repeat=k))
    for s in strings:
        n += 1
        before = len(v)
        check_string(s, v, labels)
        if _boundary(s):
            nt += 1
        if s.endswith("\n"):
            labels.add("trailing_newline")
        if s.startswith(" "):
            labels.add("leading_space")
        if "//" in s[2:]:
            labels.add("double_slash_inside")
        if "/:" in s or "//" in s[1:]:
            labels.add("empty_segment")
        if ":" in s and not s.startswith("//"):
            labels.add("no_prefix")
        if s.startswith("//:") or s.startswith(":"):
            labels.add("root_package")
        if len(v) > 40:
            break
    # keep one violation per signature
    seen, uv = set(), []
    for sig, text in v:
        if sig not in seen:
            seen.add(sig)
            uv.append((sig, text))
    oc = Outcome(uv, sorted(labels), False, {"prefix": pre, "strings": n, "boundary": nt})
    oc.evals = n
    oc.nontrivial_n = nt
    return oc


# ----------------------------------------------------------------------
# generated part

_NAME_CH = "abcXYZ019_-"
_name = st.text(alphabet=_NAME_CH, min_size=1, max_size=12)
_EDIT_CH = list("aZ0-_/: \n\t.") + ["é", "ß", "а", "\U0001f600", "\x00", "\\", "'", '"', "*"]


_LENGTHS = [20, 40, 64, 100, 120, 127, 128, 130, 138, 139, 143, 144, 150, 160, 180, 200, 220, 230]


@st.composite
def _long_names(draw, n):
    """n distinct LONG names that share a long prefix (generated sweep names that differ in a trailing seed or index).
    The documentation gives names no length limit; the file system's limit for <name>.task.<10 digits> is 239."""
    L = draw(st.sampled_from(_LENGTHS))
    base = draw(_name)
    prefix = (base * (L // len(base) + 1))[:L]
    sufs = draw(st.lists(st.text(alphabet=_NAME_CH, min_size=1, max_size=4), min_size=n, max_size=n, unique=True))
    return [prefix + s for s in sufs]


@st.composite
def _gen_case(draw, tier):
    kind = draw(st.sampled_from(["mutated", "mutated", "valid", "inject", "cond", "cli", "cond2"]))
    if kind == "cond2":
        # two (or three) COND files that define the SAME task names and refer to them relatively: ':x' written in p/COND is
        # //p:x and ':x' written in q/COND is //q:x, in whatever order the files and tasks are loaded
        pk = draw(st.sampled_from([["p", "q"], ["", "q"], ["p/a", "p"], ["p", "q", ""]]))
        names = ["x", "y", "z"][:draw(st.sampled_from([2, 3, 3]))]
        nodes = [(a, b) for a in range(len(pk)) for b in range(len(names))]
        deps = {}
        for k, (a, b) in enumerate(nodes):
            later = nodes[k + 1:]
            mask = draw(st.sampled_from(range(1 << len(later)))) & draw(st.sampled_from(range(1 << len(later))))
            ds = [later[i] for i in range(len(later)) if (mask >> i) & 1][:3]
            if len(ds) > 1:
                ds = list(draw(st.permutations(ds)))
            deps["%d,%d" % (a, b)] = [[d[0], d[1], draw(st.sampled_from(["rel", "rel", "abs"]))] for d in ds]
        return {"kind": "cond2", "pkgs": pk, "names": names, "deps": deps, "s": ""}
    long_mode = draw(st.sampled_from([False, False, False, True]))
    segs = draw(st.lists(_name, min_size=0, max_size=5))
    name = draw(_long_names(1))[0] if long_mode else draw(_name)
    s = "//" + "/".join(segs) + ":" + name
    case = {"kind": kind, "s": s}
    if kind == "mutated":
        t = s
        for _ in range(draw(st.integers(1, 3))):
            op = draw(st.sampled_from(["ins", "del", "rep"]))
            pos = draw(st.integers(0, max(0, len(t))))
            ch = draw(st.sampled_from(_EDIT_CH))
            if op == "ins":
                t = t[:pos] + ch + t[pos:]
            elif op == "del" and t:
                pos = min(pos, len(t) - 1)
                t = t[:pos] + t[pos + 1:]
            elif t:
                pos = min(pos, len(t) - 1)
                t = t[:pos] + ch + t[pos + 1:]
        case["s"] = t
    elif kind == "inject":
        n = draw(st.integers(2, 6))
        pool_segs = draw(st.lists(_name, min_size=1, max_size=3))
        pool_names = draw(_long_names(3)) if long_mode else draw(st.lists(_name, min_size=1, max_size=3))
        pairs = []
        for _ in range(n):
            sg = draw(st.lists(st.sampled_from(pool_segs), max_size=3))
            nm = draw(st.sampled_from(pool_names))
            ver = draw(st.sampled_from([None, 1, 5, 15, 51, 1700000000]))
            pairs.append(["//" + "/".join(sg) + ":" + nm, ver])
        case["pairs"] = pairs
    elif kind in ("cond", "cli"):
        case["pkg"] = "/".join(draw(st.lists(_name, min_size=0, max_size=3)))
        case["names"] = draw(_long_names(3)) if long_mode else draw(st.lists(_name, min_size=2, max_size=3, unique=True))
    return case


def run_cond2(case):
    from conductor.parsing.task_index import TaskIndex
    from conductor.errors import ConductorError
    TI, _ = _api()
    pk, names = case["pkgs"], case["names"]
    root = projgen.new_scratch("c20b")
    v = []
    try:
        with open(os.path.join(root, "cond_config.toml"), "w") as f:
            f.write("disable_git = true\n")
        want = {}
        for a, pkg in enumerate(pk):
            d = os.path.join(root, pkg) if pkg else root
            os.makedirs(d, exist_ok=True)
            lines = []
            for b, nm in enumerate(names):
                ds, res = [], []
                for (a2, b2, form) in case["deps"]["%d,%d" % (a, b)]:
                    tgt = "//%s:%s" % (pk[a2], names[b2])
                    ds.append(":" + names[b2] if form == "rel" and a2 == a else tgt)
                    res.append(tgt)
                want["//%s:%s" % (pkg, nm)] = res
                lines.append("run_command(name=%r, run='true', deps=%r)\n" % (nm, ds))
            with open(os.path.join(d, "COND"), "w") as f:
                f.writelines(lines)
        target = "//%s:%s" % (pk[0], names[0])
        ti = TaskIndex(pathlib.Path(root))
        try:
            ti.load_transitive_closure(TI.from_str(target))
        except ConductorError as ex:
            v.append(("relative_resolution", "loading %s failed although every ':name' names a task of its own COND file: %s: %s" % (
                target, type(ex).__name__, ex.printable_message()[:160])))
            return Outcome(v, ["relative_deps_same_names_in_several_files"], True, {"pkgs": pk, "deps": case["deps"]})
        # every task of the closure: its dependencies are the ones of ITS OWN file
        seen, stack = set(), [target]
        while stack:
            t = stack.pop()
            if t in seen:
                continue
            seen.add(t)
            got = [str(d) for d in ti.get_task(TI.from_str(t)).deps]
            if got != want[t]:
                v.append(("relative_resolution", "%s lists %s, which resolved to %s" % (t, want[t], got)))
                break
            stack.extend(want[t])
        return Outcome(v, ["relative_deps_same_names_in_several_files"], len(seen) >= 3, {"pkgs": pk, "loaded": sorted(seen)})
    finally:
        projgen.rm(root)


def strategy(tier):
    return _gen_case(tier)


def examples(tier):
    return 6000 if tier == "quick" else 200000


def run_case(case):
    if "enum_prefix" in case:
        return run_enum(case)
    if "sweep_template" in case:
        return run_sweep(case)
    TI, Invalid = _api()
    kind = case["kind"]
    v, labels = [], []
    if kind in ("mutated", "valid"):
        s = case["s"]
        if "\x00" in s:
            labels.append("nul_char")
        check_string(s, v, labels)
        labels.append("generated_" + kind)
        return Outcome(v, labels, _boundary(s) if len(s) < 200 else True, {"s": s})
    if kind == "inject":
        import conductor.filename as f
        from conductor.execution.version_index import Version
        dirs = {}
        for s, ver in case["pairs"]:
            ident = TI.from_str(s)
            d = pathlib.PurePosixPath(ident.path, f.task_output_dir(ident, None if ver is None else Version(ver, None, False)))
            key = (str(ident), ver)
            dirs[key] = d
        keys = list(dirs)
        for i in range(len(keys)):
            for j in range(i + 1, len(keys)):
                a, b = dirs[keys[i]], dirs[keys[j]]
                if a == b:
                    v.append(("output_dir_collision", "%r and %r share the output directory %s" % (keys[i], keys[j], a)))
                elif a in b.parents or b in a.parents:
                    v.append(("output_dir_nested", "output directories of %r and %r are nested: %s / %s" % (keys[i], keys[j], a, b)))
        labels.append("injectivity_set")
        if any(len(s) > 100 for s, _ in case["pairs"]):
            labels.append("long_names_sharing_a_prefix")
        return Outcome(v, labels, len(dirs) >= 2, {"pairs": case["pairs"]})
    if kind == "cond2":
        return run_cond2(case)
    # COND-level: ':name' resolves against the directory of the COND file that lists it
    root = projgen.new_scratch("c20")
    try:
        pkg = case["pkg"]
        names = case["names"]
        pcase = {"pkgs": [pkg], "tasks": [
            {"pkg": 0, "name": names[0], "kind": "cmd", "deps": [[1, "rel"]]},
            {"pkg": 0, "name": names[1], "kind": "cmd", "deps": []}]}
        if pkg:
            # a same-named decoy in the root package: ':name' must not resolve to it
            pcase["pkgs"].append("")
            pcase["tasks"].append({"pkg": 1, "name": names[1], "kind": "cmd", "deps": []})
        projgen.write_project(root, pcase)
        tid = "//%s:%s" % (pkg, names[0])
        if kind == "cond":
            from conductor.parsing.task_index import TaskIndex
            from conductor.errors import ConductorError
            want = ["//%s:%s" % (pkg, names[1])]
            deps = None
            here = os.getcwd()
            # the resolution may not depend on the process's working directory either
            for cwd in (here, root, os.path.join(root, pkg) if pkg else root, "/"):
                try:
                    os.chdir(cwd)
                    ti = TaskIndex(pathlib.Path(root))
                    ident = TI.from_str(tid)
                    try:
                        ti.load_transitive_closure(ident)
                        deps = [str(d) for d in ti.get_task(ident).deps]
                    except ConductorError as ex:
                        deps = "%s: %s" % (type(ex).__name__, ex.printable_message()[:120])
                finally:
                    os.chdir(here)
                if deps != want:
                    v.append(("relative_resolution", "':%s' listed in //%s/COND resolved to %s (cwd %s), expected %s" % (
                        names[1], pkg, deps, os.path.relpath(cwd, root) if cwd.startswith(root) else cwd, want)))
                    break
            labels.append("relative_dep_in_cond_file")
            return Outcome(v, labels, bool(pkg), {"pkg": pkg, "deps": deps})
        from ..isolate import run_cond
        res = run_cond(root, ["where", "-f", tid])
        want = os.path.join(root, "cond-out", pkg, names[0] + ".task")
        got = res["stdout"].decode().strip()
        if res["status"] != 0 or os.path.normpath(got) != os.path.normpath(want):
            v.append(("where_location", "cond where -f %s -> status %r %r, expected %r" % (tid, res["status"], got, want)))
        # identifiers without the // prefix are accepted on the command line
        # (a leading '-' would be taken for an option by any argparse CLI: use the `--` separator there)
        res2 = run_cond(root, ["where", "-f", "--", tid[2:]])
        if res2["stdout"] != res["stdout"] or res2["status"] != res["status"]:
            v.append(("where_unprefixed", "cond where -f %s differs from the prefixed spelling" % tid[2:]))
        # a versioned (experiment) output location through the real code path
        with open(os.path.join(root, pkg, "COND") if pkg else os.path.join(root, "COND"), "a") as f:
            f.write("run_experiment(name=%r, run='true')\n" % (names[0] + "-x"))
        etid = "//%s:%s-x" % (pkg, names[0])
        projgen.seed_rows(root, [(etid, 15, None, False), (etid, 5, None, False)])
        res3 = run_cond(root, ["where", etid])
        want3 = os.path.join(root, "cond-out", pkg, names[0] + "-x.task.15")
        got3 = res3["stdout"].decode().strip()
        if res3["status"] != 0 or os.path.normpath(got3) != os.path.normpath(want3):
            v.append(("where_version_location", "cond where %s -> status %r %r, expected %r" % (etid, res3["status"], got3, want3)))
        labels.append("cli_where")
        return Outcome(v, labels, True, {"tid": tid, "where": got, "where_version": got3})
    finally:
        projgen.rm(root)
