"""C08 — every experiment execution gets a fresh, unique version directory."""
import os
import re
import shutil

from hypothesis import strategies as st

from .. import graph, projgen, trees
from ..isolate import run_cond
from ..runner import Outcome

ID = "C08"
LEVEL = "exploration"
RULE = ("Hypothesis-generated histories over one project with a HARNESS-OWNED clock (time.time is interposed): tick(delta) with "
        "delta in {0, 0.3, 0.9, 1, 5, -1, -3, -100, +1e6}; run(T, outcome map incl. failures and launch failures, schedule tape, "
        "--again); run aborted by SIGINT at a generated line; index rewritten in the old format 1 (next command migrates it); archive; restore of an archive whose timestamps were rewritten "
        "(far future, equal to an existing unrecorded directory, below everything); wipe+restore; gc. Several runs without a "
        "tick model several invocations within one second. Virtual children drop a uniquely named file into COND_OUT when they "
        "start. Before every step cond-out (paths + tree hashes) and the rows are snapshotted. Oracle per experiment execution: "
        "its version id > every timestamp recorded before the step; ids handed out in one invocation pairwise distinct; COND_OUT "
        "absent from the pre-snapshot; its listing at spawn holds nothing but Conductor's own empty logs; after the step every "
        "previously recorded version directory still exists with an unchanged tree. Non-trivial = an execution that follows a "
        "failed/aborted execution of the same task with clock advance < 1 s, or follows a restore whose max timestamp exceeds the "
        "clock, or a backwards clock step. Distinct = SHA-1 of case JSON.")
ASSUMPTIONS = ["`cond clean` is not part of the histories (the property exempts it)",
               "the clock is constant during one invocation"]
ESSENTIAL = ["same_second_after_failure", "same_second_after_success", "clock_backwards", "restore_future_ts",
             "two_experiments_one_invocation", "after_aborted_run", "again"]
TECHNIQUE = "stateful property testing (Hypothesis-generated histories) with a harness-owned clock under the virtual kernel; freshness/monotonicity invariants over snapshots"
LEVEL_TEXT = "Randomised search over run/restore/gc histories and clock behaviours; freshness is judged against a snapshot taken before each step."
LEVEL_NOTE = "Trusted: time.time interposition reaches every place Conductor reads the clock for version ids; vf/trees.py."

TICKS = [0, 0, 0, 0.3, 0.9, 1, 1, 5, -1, -3, -100, 1000000]


@st.composite
def _case(draw, tier):
    g = draw(graph.graph_case(max_tasks=5, min_tasks=1, outcomes="none", kind_weights=(1, 6, 1, 0), flags=(), tape_max=0,
                              seeded=False, jobs=(None, 2, 3)))
    n = draw(st.sampled_from([2, 3, 4, 5, 6, 8]))
    steps = []
    for _ in range(n):
        op = draw(st.sampled_from(["run"] * 6 + ["tick"] * 3 + ["archive", "restore_shift", "wipe_restore", "gc", "abort", "to_v1"]))
        s = {"op": op}
        if op in ("run", "abort"):
            s["target"] = draw(st.sampled_from([0, 0] + list(range(len(g["tasks"])))))
            s["flags"] = draw(st.sampled_from([[], ["again"], ["again"], ["again"]]))
            bad = {}
            for i, t in enumerate(g["tasks"]):
                if t["kind"] in graph.PROC_KINDS and draw(st.sampled_from(range(3))) == 0:
                    bad[str(i)] = draw(st.sampled_from([{"exit": 3}, {"exit": 3}, {"signal": 15}, {"launch": "enoent"}]))
            s["outcomes"] = bad
            tl = draw(st.sampled_from([0, 0, 8]))
            s["tape"] = draw(st.lists(st.sampled_from([0] * 20 + list(range(1, 16))), min_size=tl, max_size=tl))
            if op == "abort":
                s["kfrac"] = draw(st.sampled_from(range(300, 1000, 23)))
        elif op == "tick":
            s["delta"] = draw(st.sampled_from(TICKS))
        elif op == "restore_shift":
            s["shift"] = draw(st.sampled_from([1, 50, 100000, 10 ** 7, -5, -900]))
        steps.append(s)
    tpl = draw(st.sampled_from(["none", "none", "restore_future", "fail_same_second"]))
    exps = [i for i, t in enumerate(g["tasks"]) if t["kind"] == "exp"]
    if tpl == "restore_future":
        pre = [{"op": "run", "target": 0, "flags": [], "outcomes": {}, "tape": []}, {"op": "archive"},
               {"op": "restore_shift", "shift": draw(st.sampled_from([100000, 10 ** 7]))},
               {"op": "run", "target": 0, "flags": ["again"], "outcomes": {}, "tape": []}]
        steps = pre + steps
    elif tpl == "fail_same_second" and exps:
        e = draw(st.sampled_from(exps))
        pre = [{"op": "run", "target": e, "flags": [], "outcomes": {str(e): {"exit": 3}}, "tape": []},
               {"op": "run", "target": e, "flags": [], "outcomes": {}, "tape": []}]
        steps = pre + steps
    g["steps"] = steps
    return g


def strategy(tier):
    return _case(tier)


def examples(tier):
    return 960 if tier == "quick" else 50000


def run_case(case):
    work = projgen.new_scratch("c08")
    try:
        return _run(case, work)
    finally:
        projgen.rm(work)


_VER = re.compile(r"^(?P<name>[A-Za-z0-9_-]+)\.task\.(?P<ts>[0-9]+)$")


def _run(case, work):
    root = os.path.join(work, "proj")
    projgen.write_project(root, case)
    ids = projgen.idents(case)
    kind_of = {ids[i]: t["kind"] for i, t in enumerate(case["tasks"])}
    clock = 5000.0
    v = []
    labels = set()
    nontrivial = False
    last_exec = {}      # task -> (clock second, ok?)
    archives = []
    restored_max = None
    summary = {"steps": []}
    for si, step in enumerate(case["steps"]):
        op = step["op"]
        if op == "tick":
            if step["delta"] < 0:
                labels.add("clock_backwards")
                nontrivial = True
            clock += step["delta"]
            summary["steps"].append("tick %+g -> %g" % (step["delta"], clock))
            continue
        out = os.path.join(root, "cond-out")
        pre = trees.snapshot(out) if os.path.isdir(out) else {}
        rows_before = projgen.read_rows(root)
        max_before = max([r[1] for r in rows_before], default=0)
        recorded_dirs = {os.path.relpath(projgen.version_dir(root, t, ts), out): trees.subtree(pre, os.path.relpath(projgen.version_dir(root, t, ts), out))
                         for t, ts, _, _ in rows_before if os.path.relpath(projgen.version_dir(root, t, ts), out) in pre}
        res = None
        if op in ("run", "abort"):
            c2 = dict(case)
            c2["target"] = step["target"] if step["target"] < len(case["tasks"]) else 0
            c2["flags"] = step["flags"]
            c2["outcomes"] = step["outcomes"]
            c2["tape"] = step["tape"]
            argv = graph.argv_for(c2)
            kspec = graph.kernel_spec(c2, clock)
            kspec["files"] = {"*": {"start": [["started-in-step-%d-{pid}" % si, "x"]], "ok": [["done", "done"]]}}
            inject = None
            if op == "abort":
                copy = os.path.join(work, "dry")
                shutil.copytree(root, copy, symlinks=True)
                dry = run_cond(copy, argv, kspec=kspec, inject={"mode": "count", "only_in": ["run_plan"]})
                shutil.rmtree(copy, ignore_errors=True)
                n = dry.get("lines", 0)
                if n:
                    inject = {"mode": "abort", "at": 1 + step["kfrac"] * n // 1000, "sig": 2, "only_in": ["run_plan"]}
            if "again" in step["flags"]:
                labels.add("again")
            res = run_cond(root, argv, kspec=kspec, inject=inject)
            if res["status"] in ("deadlock", "livelock"):
                v.append((res["status"], "step %d (%s at clock %g): cond run never returns: %s" % (si, " ".join(argv[1:]), clock, res.get("detail"))))
                break
            execs = [e for e in res["events"] if e["e"] == "spawn" and kind_of.get(e["task"]) == "exp"]
            lf = [e for e in res["events"] if e["e"] == "launchfail" and kind_of.get(e["task"]) == "exp" and e.get("pid") is None]
            seen_ids = {}
            exits = {e["pid"]: e["status"] for e in res["events"] if e["e"] == "exit"}
            if len(execs) >= 2:
                labels.add("two_experiments_one_invocation")
            for e in execs:
                cout = e["env"]["COND_OUT"]
                m = _VER.match(os.path.basename(cout))
                what = "step %d (%s at clock %g): execution of %s" % (si, " ".join(argv[1:]), clock, e["task"])
                if not m:
                    v.append(("no_version_in_cond_out", "%s got COND_OUT=%s" % (what, cout)))
                    continue
                vid = int(m.group("ts"))
                if vid <= max_before:
                    v.append(("version_id_not_greater", "%s got version id %d, the project already records a version with timestamp %d" % (what, vid, max_before)))
                if vid in seen_ids:
                    v.append(("version_id_reused_in_invocation", "%s and %s both got version id %d" % (e["task"], seen_ids[vid], vid)))
                seen_ids[vid] = e["task"]
                rel = os.path.relpath(cout, out)
                if rel in pre:
                    v.append(("output_dir_not_fresh", "%s got %s which already existed before this invocation (contents: %s)" % (
                        what, rel, sorted(trees.subtree(pre, rel))[:4])))
                leftovers = [n_ for n_ in (e["listing"] or []) if n_ not in ("stdout.log", "stderr.log")] + \
                            [n_ for n_, sz in (e["sizes"] or {}).items() if n_ in ("stdout.log", "stderr.log") and sz]
                if leftovers:
                    v.append(("output_dir_not_empty", "%s started with %s already in its output directory" % (what, leftovers[:4])))
                # labels
                prev = last_exec.get(e["task"])
                if prev is not None and int(prev[0]) == int(clock):
                    if prev[1]:
                        labels.add("same_second_after_success")
                    else:
                        labels.add("same_second_after_failure")
                        nontrivial = True
                    if prev[2]:
                        labels.add("after_aborted_run")
                if restored_max is not None and restored_max > clock:
                    labels.add("restore_future_ts")
                    nontrivial = True
                ok = exits.get(e["pid"]) == 0 and op != "abort"
                last_exec[e["task"]] = (clock, ok, op == "abort")
            for e in lf:
                last_exec[e["task"]] = (clock, False, False)
            summary["steps"].append({"argv": argv, "clock": clock, "status": res["status"],
                                     "versions": sorted(seen_ids), "aborted_at": (res.get("inject") or {}).get("func")})
        elif op == "archive":
            path = os.path.join(work, "arch%d.tar.gz" % len(archives))
            res = run_cond(root, ["archive", "-o", path], kspec={"clock": clock})
            if res["status"] == 0:
                archives.append((path, list(rows_before)))
            summary["steps"].append("archive -> %r" % res["status"])
        elif op in ("restore_shift", "wipe_restore"):
            if not archives:
                summary["steps"].append(op + " (no archive yet)")
                continue
            path, arows = archives[-1]
            if op == "wipe_restore":
                shutil.rmtree(out, ignore_errors=True)
                pre, rows_before, recorded_dirs, max_before = {}, [], {}, 0
                res = run_cond(root, ["restore", path], kspec={"clock": clock})
            else:
                shifted = _shift_archive(work, path, step["shift"], len(summary["steps"]))
                res = run_cond(root, ["restore", shifted], kspec={"clock": clock})
            if res["status"] == 0:
                rows_now = projgen.read_rows(root)
                if rows_now:
                    restored_max = max(r[1] for r in rows_now)
            summary["steps"].append("%s -> %r" % (op, res["status"]))
        elif op == "gc":
            res = run_cond(root, ["gc"], kspec={"clock": clock})
            summary["steps"].append("gc -> %r" % res["status"])
        elif op == "to_v1":
            # the index as Conductor <= 0.4.0 wrote it (format 1); the next command migrates it
            if _downgrade_to_v1(root):
                labels.add("index_migrated_from_v1")
            summary["steps"].append("index rewritten in format 1")
        # (d) previously recorded version directories untouched
        post = trees.snapshot(out) if os.path.isdir(out) else {}
        for rel, snap in recorded_dirs.items():
            if rel not in post:
                v.append(("recorded_version_deleted", "step %d (%s) deleted the recorded version directory %s" % (si, op, rel)))
            elif trees.subtree(post, rel) != snap:
                v.append(("recorded_version_modified", "step %d (%s) changed the recorded version directory %s: %s" % (
                    si, op, rel, trees.diff(snap, trees.subtree(post, rel)))))
        if len(v) > 5:
            break
    seen, uv = set(), []
    for s in v:
        if s[0] not in seen:
            seen.add(s[0])
            uv.append(s)
    return Outcome(uv, sorted(labels), nontrivial, summary)


def _downgrade_to_v1(root):
    import sqlite3
    path = projgen.index_path(root)
    if not os.path.exists(path):
        return False
    conn = sqlite3.connect(path)
    try:
        if conn.execute("PRAGMA user_version").fetchone()[0] != 2:
            return False
        rows = conn.execute("SELECT task_identifier, timestamp, git_commit_hash FROM version_index").fetchall()
        conn.execute("DROP TABLE version_index")
        conn.execute("CREATE TABLE version_index (task_identifier TEXT NOT NULL, timestamp INTEGER NOT NULL, "
                     "git_commit TEXT NOT NULL, PRIMARY KEY (task_identifier, timestamp))")
        conn.executemany("INSERT INTO version_index VALUES (?, ?, ?)", [(t, ts, c or "") for t, ts, c in rows])
        conn.execute("PRAGMA user_version = 1")
        conn.commit()
    finally:
        conn.close()
    for n in os.listdir(os.path.dirname(path)):
        if n.startswith("version_index_backup"):
            os.unlink(os.path.join(os.path.dirname(path), n))
    return True


def _shift_archive(work, path, shift, tag):
    """Rewrite the archive so that every version's timestamp is moved by `shift` (rows and directory names)."""
    import sqlite3
    import tarfile
    d = os.path.join(work, "shift%d" % tag)
    os.makedirs(d)
    with tarfile.open(path, "r:gz") as t:
        t.extractall(d)
    idx = os.path.join(d, "version_index_archive.sqlite")
    conn = sqlite3.connect(idx)
    rows = conn.execute("SELECT task_identifier, timestamp FROM version_index").fetchall()
    for task, ts in sorted(rows, key=lambda r: -r[1] if shift > 0 else r[1]):
        new = max(1, ts + shift)
        pkg, name = projgen.split_ident(task)
        old_dir = os.path.join(d, pkg, "%s.task.%d" % (name, ts))
        new_dir = os.path.join(d, pkg, "%s.task.%d" % (name, new))
        if os.path.isdir(old_dir) and not os.path.exists(new_dir):
            os.rename(old_dir, new_dir)
            conn.execute("UPDATE version_index SET timestamp=? WHERE task_identifier=? AND timestamp=?", (new, task, ts))
    conn.commit()
    conn.close()
    out = os.path.join(work, "shifted%d.tar.gz" % tag)
    with tarfile.open(out, "w:gz") as t:
        for n in sorted(os.listdir(d)):
            t.add(os.path.join(d, n), arcname=n)
    shutil.rmtree(d, ignore_errors=True)
    return out
