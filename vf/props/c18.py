"""C18 — combine() exposes each dependency's output under its name."""
import os

from hypothesis import strategies as st

from .. import graph, projgen, trees
from ..isolate import run_cond
from ..runner import Outcome

ID = "C18"
LEVEL = "exploration"
RULE = ("Hypothesis-generated combine tasks in a package of depth 0-3 over 1-5 direct deps of every kind (experiments, commands "
        "with empty and non-empty output, groups, other combines) living in packages of other depths, plus an optional second "
        "dependent of the same deps; histories of 1-3 invocations (first run, cached re-run, --again, experiments re-run at a new "
        "version) and optionally an entry planted at <out>/<depname> as a regular file, an empty directory or a non-empty "
        "directory. Virtual children write generated files (or nothing) into COND_OUT. Oracle: after a successful run every dep "
        "whose directory (the COND_OUT it received in this invocation, else its newest recorded version) is non-empty has an entry "
        "named after it with realpath(entry) == realpath(that directory), equal to what the other dependent got in COND_DEPS; "
        "with a planted non-link entry the run exits 1 with the conflict diagnostic and the planted tree is unchanged. "
        "Non-trivial = combine and >=1 dep in different packages of different depth, or a later run that moved a link. "
        "Distinct = SHA-1 of case JSON."
        " In a third of the cases the dependency names are variations of one stem (out, out-tmp, out_tmp, tmp-out, out-new, out-old, out-bak, out-lock, out-1, _out, out_ ...), listed in a generated order. An entry may also be planted as a dangling link of the form Conductor makes (its target version is gone). Between invocations a newer version of an experiment dependency may appear without the dependency running (restored from elsewhere, with old or current modification times).")
ASSUMPTIONS = ["nothing is demanded for deps whose output directory is empty or absent (the statement excludes them)",
               "git disabled: the cached version of an experiment is its newest recorded one"]
ESSENTIAL = ["cross_depth", "relink_new_version", "empty_dep_output", "planted_file", "planted_dir", "planted_emptydir",
             "group_dep", "combine_dep", "cached_rerun", "depth3", "entry_names_with_temp_file_affixes", "planted_dangling_link", "newer_version_appeared_without_a_run", "package_output_directory_is_a_symlink"]
TECHNIQUE = "property-based testing (Hypothesis) under the virtual kernel; realpath-equality oracle against the directories recorded at spawn"
LEVEL_TEXT = "Randomised search over combine layouts and run histories; link targets are compared by realpath with the directories the deps actually received."
LEVEL_NOTE = "Trusted: vf/kernel.py spawn records and file materialisation."

PKGS = ["", "a", "a/b", "a/b/c", "x-1", "x-1/_y"]
RELATED = ["%s", "%s-tmp", "%s_tmp", "tmp-%s", "%s-new", "%s-old", "%s-bak", "%s-lock", "%s-link", "%s-1", "_%s", "%s_", "-%s", "%s-"]


@st.composite
def _case(draw, tier):
    k = draw(st.sampled_from([1, 2, 3, 3, 4, 5]))
    cpkg = draw(st.sampled_from(range(len(PKGS))))
    tasks = [{"pkg": cpkg, "name": "cmb", "kind": "combine", "deps": []}]
    writes = {}
    # dependency (= entry) names: plain, or variations of one stem with the affixes that temporary / backup files get
    related = draw(st.sampled_from([False, False, True]))
    stem = draw(st.sampled_from(["out", "d", "plots", "x-1"]))
    dnames = list(draw(st.permutations(RELATED)))[:k] if related else None
    for i in range(1, k + 1):
        kind = draw(st.sampled_from(["exp", "exp", "cmd", "cmd", "group", "combine"]))
        t = {"pkg": draw(st.sampled_from(range(len(PKGS)))), "name": (dnames[i - 1] % stem) if related else "d%d" % i, "kind": kind, "deps": []}
        if kind in ("exp", "cmd"):
            t["par"] = draw(st.booleans())
            writes[str(i)] = draw(st.sampled_from([True, True, False]))
        tasks.append(t)
    # leaves below groups / combines
    n = len(tasks)
    for i in range(1, k + 1):
        if tasks[i]["kind"] in ("group", "combine"):
            leaf = {"pkg": draw(st.sampled_from(range(len(PKGS)))), "name": "leaf%d" % i,
                    "kind": draw(st.sampled_from(["exp", "cmd"])), "deps": [], "par": False}
            tasks.append(leaf)
            writes[str(len(tasks) - 1)] = True
            tasks[i]["deps"].append([len(tasks) - 1, "abs"])
    order = list(draw(st.permutations(list(range(1, k + 1)))))
    tasks[0]["deps"] = [[i, "abs"] for i in order]
    consumer = draw(st.booleans())
    if consumer:
        tasks.append({"pkg": draw(st.sampled_from(range(len(PKGS)))), "name": "use", "kind": "cmd",
                      "deps": [[i, "abs"] for i in order], "par": False})
        tasks.append({"pkg": 0, "name": "top", "kind": "group", "deps": [[0, "abs"], [len(tasks) - 1, "abs"]]})
        target = len(tasks) - 1
    else:
        target = 0
    nrun = draw(st.sampled_from([1, 2, 2, 3]))
    hist = []
    for r in range(nrun):
        hist.append({"flags": draw(st.sampled_from([[], [], ["again"]])),
                     # dangling_link: a link as Conductor makes them whose target is gone (the version it pointed to was
                     # garbage-collected, or an interrupted `cond clean` removed it first): still a link Conductor made
                     "plant": draw(st.sampled_from([None] * 5 + ["file", "emptydir", "dir", "dangling_link", "dangling_link"])),
                     "plant_dep": draw(st.sampled_from(order)),
                     # before this invocation a NEWER version of an experiment dependency appears without the dependency
                     # running here (a `cond restore` of results produced elsewhere; its files keep the archive's old
                     # modification times): the selected version changes, the entry has to follow
                     "newver": draw(st.sampled_from([None, None, None, "old_mtime", "now"])) if r > 0 else None})
    seeded = {}
    for i, t in enumerate(tasks):
        if t["kind"] == "exp" and draw(st.sampled_from(range(4))) == 0:
            seeded[str(i)] = [draw(st.sampled_from(range(100, 200)))]
    return {"pkgs": PKGS, "tasks": tasks, "target": target, "seeded": seeded, "jobs": draw(st.sampled_from([None, 2])),
            "flags": [], "outcomes": {}, "tape": [], "foreign": 0, "history": hist, "writes": writes, "related_names": related,
            # the output directory of one package is a symbolic link to a directory elsewhere (outputs moved to a bigger
            # disk), at another depth than the place it stands for
            "linked_pkg": draw(st.sampled_from([None, None, None, "combine", "dep", "dep"]))}


def strategy(tier):
    return _case(tier)


def examples(tier):
    return 1920 if tier == "quick" else 100000


def run_case(case):
    root = projgen.new_scratch("c18")
    try:
        return _run(case, root)
    finally:
        projgen.rm(root)


def _nonempty(d):
    return os.path.isdir(d) and any(True for _ in os.scandir(d))


def _run(case, root):
    ids = projgen.idents(case)
    labels = set()
    v = []
    projgen.write_project(root, case)
    graph.seed_case(root, case)
    cmb = case["tasks"][0]
    cpkg = case["pkgs"][cmb["pkg"]]
    cout = projgen.version_dir(root, ids[0])
    files = {}
    for i, t in enumerate(case["tasks"]):
        if t["kind"] in graph.PROC_KINDS:
            if case["writes"].get(str(i), True):
                files[ids[i]] = {"ok": [["data.txt", "by %s run {n}" % ids[i]], ["sub/more.bin", "\x00\x01"]]}
            else:
                files[ids[i]] = {"ok": []}
                if t["kind"] == "cmd":
                    labels.add("empty_dep_output")
    if case.get("linked_pkg"):
        cands = [cpkg] if case["linked_pkg"] == "combine" else [case["pkgs"][case["tasks"][d[0]]["pkg"]] for d in cmb["deps"]]
        cands = [p for p in cands if p]
        if cands:
            pkg = cands[0]
            store = os.path.join(root, "bigdisk", "vol", "0", "outputs-of-" + pkg.replace("/", "_"))
            os.makedirs(store)
            link = os.path.join(root, "cond-out", pkg)
            if not os.path.lexists(link):
                os.makedirs(os.path.dirname(link), exist_ok=True)
                os.symlink(store, link)
                labels.add("package_output_directory_is_a_symlink")
    nontrivial = False
    prev_targets = {}
    summary = {"combine": ids[0], "deps": [ids[d[0]] for d in cmb["deps"]], "runs": []}
    if cpkg.count("/") >= 2 or any(case["pkgs"][case["tasks"][d[0]]["pkg"]].count("/") >= 2 for d in cmb["deps"]):
        labels.add("depth3")
    if case.get("related_names"):
        labels.add("entry_names_with_temp_file_affixes")
    for r, inv in enumerate(case["history"]):
        c2 = dict(case)
        c2["flags"] = inv["flags"]
        planted = None
        if inv.get("newver"):
            exps = [d[0] for d in cmb["deps"] if case["tasks"][d[0]]["kind"] == "exp"]
            if exps:
                d_idx = exps[r % len(exps)]
                ts = 900000 + r
                vd = projgen.version_dir(root, ids[d_idx], ts)
                if not os.path.exists(vd):
                    projgen.seed_rows(root, [(ids[d_idx], ts, None, False)], files=[("data.txt", "restored from elsewhere"), ("sub/x", "x")])
                    if inv["newver"] == "old_mtime":
                        for dp, dn, fn in os.walk(vd, topdown=False):
                            for n in fn + [""]:
                                os.utime(os.path.join(dp, n) if n else dp, (946684800, 946684800))
                    labels.add("newer_version_appeared_without_a_run")
        if inv["plant"]:
            dep = case["tasks"][inv["plant_dep"]]
            p = os.path.join(cout, dep["name"])
            if os.path.islink(p):
                os.unlink(p)
            if not os.path.lexists(p):
                os.makedirs(cout, exist_ok=True)
                if inv["plant"] == "dangling_link":
                    os.symlink(os.path.join("..", "%s.task.1" % dep["name"]), p)
                    labels.add("planted_dangling_link")
                    inv = dict(inv, plant=None)
                elif inv["plant"] == "file":
                    with open(p, "w") as f:
                        f.write("user file")
                elif inv["plant"] == "emptydir":
                    os.makedirs(p)
                else:
                    os.makedirs(os.path.join(p, "inner"))
                    with open(os.path.join(p, "inner", "keep.txt"), "w") as f:
                        f.write("keep")
                if inv["plant"]:
                    planted = (p, trees.snapshot(p) if os.path.isdir(p) else open(p).read(), inv["plant_dep"])
                    labels.add("planted_" + inv["plant"])
        rows_before = projgen.read_rows(root)
        newest = {}
        for t, ts, _, _ in rows_before:
            newest[t] = max(newest.get(t, 0), ts)
        kspec = graph.kernel_spec(c2, 1000.0 + 10 * r)
        kspec["files"] = files
        res = run_cond(root, graph.argv_for(c2), kspec=kspec)
        spawns = {e["task"]: e for e in res["events"] if e["e"] == "spawn"}
        err = res["stderr"].decode("utf-8", "replace")
        if res.get("uncaught") or res["status"] in ("deadlock", "livelock"):
            v.append(("run_broke", "invocation %d: %s" % (r, (res.get("uncaught_tb") or str(res["status"]))[-300:])))
            break
        # the directory each direct dep contributes in this invocation
        contrib = {}
        for d_idx, _ in cmb["deps"]:
            dt = case["tasks"][d_idx]
            did = ids[d_idx]
            if dt["kind"] == "group":
                labels.add("group_dep")
                continue
            if dt["kind"] == "combine":
                labels.add("combine_dep")
            if dt["kind"] == "exp":
                if did in spawns:
                    contrib[d_idx] = spawns[did]["env"]["COND_OUT"]
                elif did in newest:
                    contrib[d_idx] = projgen.version_dir(root, did, newest[did])
                    labels.add("cached_rerun")
            else:
                contrib[d_idx] = projgen.version_dir(root, did)
        will_conflict = planted is not None and planted[2] in contrib and _nonempty(contrib[planted[2]])
        if planted is not None and will_conflict:
            if res["status"] != 1 or "ERROR:" not in err or os.path.basename(planted[0]) not in err:
                v.append(("conflict_not_reported", "invocation %d: planted %s at %s but status=%r stderr=%r" % (
                    r, case["history"][r]["plant"], planted[0], res["status"], err[-200:])))
            now = trees.snapshot(planted[0]) if os.path.isdir(planted[0]) and not os.path.islink(planted[0]) else (
                open(planted[0]).read() if os.path.isfile(planted[0]) and not os.path.islink(planted[0]) else "<replaced>")
            if now != planted[1]:
                v.append(("planted_entry_overwritten", "invocation %d: the planted entry %s was modified or replaced" % (r, planted[0])))
            # remove it so that later invocations can proceed
            if os.path.isdir(planted[0]) and not os.path.islink(planted[0]):
                import shutil
                shutil.rmtree(planted[0])
            elif os.path.lexists(planted[0]):
                os.unlink(planted[0])
            summary["runs"].append({"status": res["status"], "planted": case["history"][r]["plant"]})
            continue
        if planted is not None:
            # planted at a name whose dep has no (non-empty) output: nothing is linked there, nothing demanded
            if os.path.isdir(planted[0]) and not os.path.islink(planted[0]):
                import shutil
                shutil.rmtree(planted[0])
            elif os.path.lexists(planted[0]) and not os.path.islink(planted[0]):
                os.unlink(planted[0])
        if res["status"] != 0:
            v.append(("run_failed", "invocation %d: status %r: %s" % (r, res["status"], err[-300:])))
            break
        use = spawns.get(ids[case["tasks"].index(next((t for t in case["tasks"] if t["name"] == "use"), None))]) if any(
            t["name"] == "use" for t in case["tasks"]) else None
        targets = {}
        for d_idx, d in contrib.items():
            dt = case["tasks"][d_idx]
            entry = os.path.join(cout, dt["name"])
            if not _nonempty(d):
                continue
            if not os.path.lexists(entry):
                v.append(("entry_missing", "invocation %d: %s has the non-empty output %s but %s does not exist" % (r, ids[d_idx], d, entry)))
                continue
            if os.path.realpath(entry) != os.path.realpath(d):
                v.append(("entry_wrong_target", "invocation %d: %s resolves to %s, the dependency's directory in this invocation is %s" % (
                    r, entry, os.path.realpath(entry), os.path.realpath(d))))
            targets[d_idx] = os.path.realpath(d)
            dpkg = case["pkgs"][dt["pkg"]]
            if dpkg.count("/") != cpkg.count("/") or (dpkg == "") != (cpkg == ""):
                labels.add("cross_depth")
                nontrivial = True
            if d_idx in prev_targets and prev_targets[d_idx] != targets[d_idx]:
                labels.add("relink_new_version")
                nontrivial = True
        if use is not None:
            got = use["env"].get("COND_DEPS", "").split(":") if use["env"].get("COND_DEPS") else []
            want = [contrib[d_idx] for d_idx, _ in cmb["deps"] if d_idx in contrib]
            if got != want:
                v.append(("other_dependent_differs", "invocation %d: the other dependent got COND_DEPS %r, combine links %r" % (r, got, want)))
        prev_targets.update(targets)
        summary["runs"].append({"status": res["status"], "links": {case["tasks"][k]["name"]: os.path.relpath(t, root) for k, t in targets.items()}})
    seen, uv = set(), []
    for s in v:
        if s[0] not in seen:
            seen.add(s[0])
            uv.append(s)
    return Outcome(uv, sorted(labels), nontrivial, summary)
