"""C15 — COND definitions: well-formed accepted, malformed rejected cleanly."""
import json
import os

from hypothesis import strategies as st

from .. import model, projgen
from ..isolate import run_cond
from ..runner import Outcome

ID = "C15"
LEVEL = "exploration"
RULE = ("Hypothesis-generated COND sources over the documented constructors (run_command, run_experiment, group, combine, "
        "run_experiment_group+ExperimentInstance, include): every parameter value is drawn from a pool of well-typed and "
        "ill-typed Python expressions (None, int for str, tuple for list, list with one wrong element, dict with non-str "
        "key, nested list, bytes, int for bool...), parameters may be missing, misspelt, extra or positional; names valid/"
        "invalid/duplicate; dep strings valid/malformed/unknown/repeated; statement-level faults (syntax error, undefined "
        "name, 1/0, raise, import of a missing module); constructors inside loops/functions/comprehensions; include of "
        "existing/missing/wrong-extension/outside-project/directory/nested/task-defining/faulty .cond files; 1-2 COND files; "
        "faults placed in needed and unneeded definitions. Oracle = schema model written from the reference docs (values are "
        "re-evaluated by the model from their source text) + 'clean outcome' predicate (exit 0/1, ERROR: line, no Traceback, "
        "file named, zero spawns, no task output created) for `cond run --check T` and `cond run T`. Non-trivial = the case "
        "contains >=1 fault or >=1 include and the target's closure has >=2 tasks. Distinct = SHA-1 of case JSON."
        " Also generated: include(path=...), included files whose functions use the file's own top-level names, complex/Decimal/Fraction values (not primitive); the same relative include string in the COND files of two directories, valid for one and dangling for the other.")
ASSUMPTIONS = ["strings containing NUL and COND files raising BaseException subclasses (SystemExit, KeyboardInterrupt) are outside the domain",
               "a task-level fault (malformed dep string, non-primitive arg, ...) in a definition the command does not need may be accepted or rejected",
               "ill-typed chain_experiments is a don't-care (documented as Boolean, implemented by truthiness)"]
ESSENTIAL = ["well_formed_complex", "fault_wrong_type", "fault_missing_param", "fault_extra_param", "fault_positional",
             "fault_bad_name", "fault_duplicate_name", "fault_python_error", "fault_syntax_error", "fault_include",
             "fault_in_included_file", "fault_task_level_needed", "fault_in_unneeded_sibling", "include_ok", "ctor_in_loop_or_func"]
TECHNIQUE = "grammar-based property testing (Hypothesis) of the real CLI; schema model from the documentation + clean-rejection predicate"
LEVEL_TEXT = ("Randomised grammar-based search over COND sources; both directions are checked (well-formed must be accepted, "
              "malformed must be rejected cleanly), with an explicit don't-care class for faults in unneeded definitions.")
LEVEL_NOTE = "Trusted: the schema model in this file (from website/docs/task-types/*.md, directives/include.md)."

STR_OK = ["'true'", "'./run.sh'", "'echo hi'", "'x' * 3", "'é'"]
NAME_OK = ["'a'", "'b'", "'c'", "'d'", "'e-1'", "'_f'", "'G9'", "'-h'"]
NAME_BAD = ["''", "'a.b'", "'a b'", "'a/b'", "'a:b'", "'é'", "'x\\n'", "' a'"]
ILL = ["None", "5", "1.5", "True", "b'x'", "('a',)", "['a', 1]", "{'k': 1}", "[['a']]", "object()"]
ARGS_OK = ["[]", "['a', 1, True, 0.5]", "[1]", "['x y']", "[THREADS]"]
ARGS_TASKBAD = ["[None]", "[[1]]", "[{'a': 1}]", "['a', ('b',)]", "[1, 2j]", "[__import__('decimal').Decimal('1.5')]",
                "['a', __import__('fractions').Fraction(1, 3)]", "[b'x']"]
OPTS_OK = ["{}", "{'k': 'v'}", "{'threads': 3, 'flag': True, 'f': 0.25}"]
OPTS_TASKBAD = ["{1: 'x'}", "{'k': None}", "{'k': [1]}", "{('a',): 1}", "{'k': 1 + 2j}", "{'k': __import__('fractions').Fraction(1, 3)}",
                "{'k': __import__('decimal').Decimal('2')}"]
SCHEMA = {
    "run_command": {"name": ("str", True), "run": ("str", True), "parallelizable": ("bool", False),
                    "args": ("list", False), "options": ("dict", False), "deps": ("liststr", False)},
    "run_experiment": {"name": ("str", True), "run": ("str", True), "parallelizable": ("bool", False),
                       "args": ("list", False), "options": ("dict", False), "deps": ("liststr", False)},
    "group": {"name": ("str", True), "deps": ("liststr", False)},
    "combine": {"name": ("str", True), "deps": ("liststr", False)},
}
PKGS = ["", "p"]


def _type_ok(kind, val):
    if kind == "str":
        return isinstance(val, str)
    if kind == "bool":
        return isinstance(val, bool)
    if kind == "list":
        return isinstance(val, list)
    if kind == "dict":
        return isinstance(val, dict)
    if kind == "liststr":
        return isinstance(val, list) and all(isinstance(x, str) for x in val)
    raise AssertionError(kind)


def _prim(x):
    return isinstance(x, (str, bool, int, float))


# ----------------------------------------------------------------------
# generator


@st.composite
def _task_stmt(draw, names_pool, dep_pool, fault_rate):
    ctor = draw(st.sampled_from(["run_command", "run_command", "run_experiment", "group", "combine"]))
    schema = SCHEMA[ctor]
    kwargs = []
    fault = draw(st.sampled_from(range(fault_rate))) == 0
    fkind = draw(st.sampled_from(["type", "type", "missing", "extra", "misspelt", "positional", "badname",
                                  "tasklevel", "tasklevel", "baddep", "baddep"])) if fault else None
    name = draw(st.sampled_from(names_pool))
    kwargs.append(["name", name])
    if "run" in schema:
        kwargs.append(["run", draw(st.sampled_from(STR_OK))])
        if draw(st.booleans()):
            kwargs.append(["parallelizable", draw(st.sampled_from(["True", "False"]))])
        if draw(st.booleans()):
            kwargs.append(["args", draw(st.sampled_from(ARGS_OK))])
        if draw(st.booleans()):
            kwargs.append(["options", draw(st.sampled_from(OPTS_OK))])
    deps = draw(st.lists(st.sampled_from(dep_pool), max_size=3, unique=True)) if dep_pool else []
    if deps or draw(st.booleans()):
        kwargs.append(["deps", "[%s]" % ", ".join(repr(d) for d in deps)])
    pos = []
    if fkind == "type":
        i = draw(st.sampled_from(range(len(kwargs))))
        kwargs[i][1] = draw(st.sampled_from(ILL))
    elif fkind == "missing":
        req = [i for i, kv in enumerate(kwargs) if schema[kv[0]][1]]
        del kwargs[draw(st.sampled_from(req))]
    elif fkind == "extra":
        kwargs.append([draw(st.sampled_from(["extra", "timeout", "Name", "dep"])), "1"])
    elif fkind == "misspelt":
        i = draw(st.sampled_from(range(len(kwargs))))
        kwargs[i][0] = kwargs[i][0] + "s" if not kwargs[i][0].endswith("s") else kwargs[i][0][:-1]
    elif fkind == "positional":
        pos = [kwargs.pop(0)[1]]
    elif fkind == "badname":
        kwargs[0][1] = draw(st.sampled_from(NAME_BAD))
    elif fkind == "tasklevel" and "run" in schema:
        which = draw(st.sampled_from(["args", "options"]))
        kwargs = [kv for kv in kwargs if kv[0] != which]
        kwargs.append([which, draw(st.sampled_from(ARGS_TASKBAD if which == "args" else OPTS_TASKBAD))])
    elif fkind == "baddep":
        bad = draw(st.sampled_from(["a", "", "//", ":a b", "//p:", "x:y:z", "//p/:a ", ":é", "//:unknown_task", ":zz_unknown"]))
        rep = draw(st.booleans())
        kwargs = [kv for kv in kwargs if kv[0] != "deps"]
        dl = deps + ([deps[0]] if rep and deps else [bad])
        kwargs.append(["deps", "[%s]" % ", ".join(repr(d) for d in dl)])
    return {"t": "task", "ctor": ctor, "kwargs": kwargs, "pos": pos}


@st.composite
def _case(draw, tier):
    # one fault class at a time most of the time, so that a single fault decides the verdict
    scenario = draw(st.sampled_from(["wellformed", "wellformed", "include_fault_only", "include_fault_only",
                                     "task_faults", "task_faults", "one_task_fault", "mixed"]))
    fault_rate = 10 ** 6 if scenario in ("wellformed", "include_fault_only", "one_task_fault") else draw(st.sampled_from([3, 6, 12]))
    files = {}
    npk = draw(st.sampled_from([1, 1, 2]))
    includes = {}
    all_names = {0: [], 1: []}
    one_fault_at = draw(st.sampled_from(range(5)))
    # the same relative include string in two COND files of different directories: it names a file next to the root COND
    # (fine) and a file next to p/COND that does not exist (a fault of p/COND, whatever was resolved before)
    same_string = scenario == "include_fault_only" and npk == 2 and draw(st.sampled_from([False, False, True]))
    for p in range(npk - 1, -1, -1):
        pkg = PKGS[p]
        stmts = []
        # include directives first
        if same_string:
            inc = "missing_same" if p == 1 else draw(st.sampled_from(["ok", "ok_kw"]))
        elif scenario == "include_fault_only" and p == 0:
            inc = draw(st.sampled_from(["missing", "ext", "ext2", "outside", "outside_root", "outside_symlink", "dir", "nested",
                                        "defines_task", "syntax", "runtime", "runtime_noargs", "runtime_raise", "nonstr"]))
        elif scenario != "mixed":
            inc = draw(st.sampled_from(["none", "none", "ok", "ok_abs", "ok_func", "ok_kw"]))
        else:
            inc = draw(st.sampled_from(["none"] * 12 + ["ok", "ok_abs", "missing", "ext", "ext2", "outside", "outside", "outside_root", "outside_symlink", "dir", "nested",
                                                        "defines_task", "syntax", "runtime", "nonstr"]))
        uses_threads = False
        if inc != "none":
            stmts.append({"t": "include", "how": inc})
            uses_threads = inc in ("ok", "ok_abs", "ok_func", "ok_kw")
        n = draw(st.sampled_from([1, 2, 3, 4, 5]))
        names_pool = list(NAME_OK)
        # deps may point to later-defined tasks of this file (forward) and to tasks of the other package
        if fault_rate >= 10 ** 6 or draw(st.sampled_from([0, 0, 0, 1])) == 0:
            planned = list(draw(st.permutations(names_pool)))[:n]
        else:
            planned = [draw(st.sampled_from(names_pool)) for _ in range(n)]
        for i in range(n):
            later = [":" + eval(x) for x in planned[i + 1:] if x != planned[i]]
            other = ["//p:" + eval(x) for x in all_names[1]] if p == 0 and npk == 2 else []
            dep_pool = list(dict.fromkeys(later + other + (["//%s:%s" % (pkg, eval(planned[-1]))] if i < n - 1 and planned[-1] != planned[i] else [])))
            fr = fault_rate
            if scenario == "one_task_fault" and p == 0 and one_fault_at < 3 and i == one_fault_at % n:
                fr = 1
            s = draw(_task_stmt([planned[i]], dep_pool, fr))
            if not uses_threads:
                for kv in s["kwargs"]:
                    if "THREADS" in kv[1]:
                        kv[1] = "[3]"
            form = draw(st.sampled_from(["plain"] * 6 + ["loop", "func", "comp"]))
            s["form"] = form
            stmts.append(s)
            # python-level fault statements, sometimes
            if (fault_rate < 10 ** 6 and draw(st.sampled_from(range(fault_rate * 3))) == 0) or \
               (scenario == "one_task_fault" and p == 0 and one_fault_at >= 3 and i == n - 1):
                stmts.append({"t": "py", "code": draw(st.sampled_from(
                    ["x = 1 / 0", "raise ValueError('boom')", "import not_a_module_xyz", "undefined_name_zz",
                     "def (:", "x = [", "assert False, 'nope'", "int('x')", "{}['missing']", "run_command()",
                     "raise ValueError", "assert 1 == 2", "raise RuntimeError()", "raise KeyError", "raise Exception",
                     "[][3]", "None.x", "import os; os.stat('/nonexistent/zz')", "raise OSError(2, 'x')",
                     "def f(): return f()\nf()", "raise UnicodeError", "raise StopIteration"]))})
        # ordered so that the first planned name is defined first
        all_names[p] = [x for x in planned]
        files[pkg] = stmts
    tp = 0
    tname = eval(all_names[0][0])
    if draw(st.sampled_from(range(6))) == 0:
        tname = eval(draw(st.sampled_from(all_names[0])))
    return {"files": files, "target": ["", tname], "npk": npk}


def strategy(tier):
    return _case(tier)


def examples(tier):
    return 3200 if tier == "quick" else 300000


# ----------------------------------------------------------------------
# rendering

INC_FILES = {
    "ok": ("common.cond", "THREADS = 3\nNAMES = ['x', 'y']\n"),
    "ok_func": ("funcs.cond", "import os.path\nBASE = 4\n\ndef scaled(n):\n    return n * BASE\n\n"
                              "SIZES = list(x * BASE for x in range(2))\nTHREADS = scaled(1) - 1\njoin = lambda a: os.path.join('d', a)\n"
                              "\ndef count(xs):\n    return len(list(xs)) + int('0') + sum(1 for _ in range(0))\n"),
    "ok_abs": ("common.cond", "THREADS = 3\n"),
    "ok_kw": ("common.cond", "THREADS = 3\nNAMES = ['x', 'y']\n"),
    "nested": ("nest.cond", "include('common.cond')\nZ = 1\n"),
    "defines_task": ("deft.cond", "run_command(name='inc', run='true')\n"),
    "syntax": ("syn.cond", "X = (1,\nY = 2 +\n"),
    "runtime": ("rt.cond", "X = 1\nY = X / 0\n"),
    "runtime_noargs": ("rt0.cond", "X = 1\nassert X == 2\n"),
    "runtime_raise": ("rt1.cond", "raise LookupError\n"),
}


def include_line(how, pkg):
    if how == "ok":
        return "include('common.cond')"
    if how == "ok_kw":
        # the reference documents the argument by name: include(path)
        return "include(path='common.cond')"
    if how == "ok_func":
        return "include('funcs.cond')\nassert scaled(2) == 8 and SIZES == [0, 4] and join('x') == 'd/x' and count(range(3)) == 3"
    if how == "ok_abs":
        return "include('//%s')" % (os.path.join(pkg, "common.cond"))
    if how == "missing":
        return "include('nope.cond')"
    if how == "missing_same":
        return "include('common.cond')"
    if how == "ext":
        return "include('common.py')"
    if how == "ext2":
        return "include('common.cond.py')"
    if how == "outside":
        return "include('../' * 12 + 'etc/outside.cond')" if False else "include('../outside.cond')" if pkg else "include('../vf-outside.cond')"
    if how == "outside_root":
        return "include('//../vf-outside.cond')"
    if how == "outside_symlink":
        return "include('link.cond')"
    if how == "dir":
        return "include('adir.cond')"
    if how == "nonstr":
        return "include(5)"
    return "include(%r)" % INC_FILES[how][0]


def render_stmt(s, pkg):
    if s["t"] == "include":
        return include_line(s["how"], pkg) + "\n"
    if s["t"] == "py":
        return s["code"] + "\n"
    call = "%s(%s)" % (s["ctor"], ", ".join(list(s["pos"]) + ["%s=%s" % (k, v) for k, v in s["kwargs"]]))
    form = s.get("form", "plain")
    if form == "loop":
        return "for _i in range(1):\n    %s\n" % call
    if form == "func":
        return "def _mk():\n    %s\n_mk()\n" % call
    if form == "comp":
        return "_ = [%s for _i in range(1)]\n" % call
    return call + "\n"


def write(root, case):
    os.makedirs(root, exist_ok=True)
    with open(os.path.join(root, "cond_config.toml"), "w") as f:
        f.write("disable_git = true\n")
    # a file outside the project for the 'outside' include
    outside = os.path.join(os.path.dirname(root), "vf-outside.cond")
    for pkg, stmts in case["files"].items():
        d = os.path.join(root, pkg) if pkg else root
        os.makedirs(d, exist_ok=True)
        with open(os.path.join(d, "COND"), "w") as f:
            for s in stmts:
                f.write(render_stmt(s, pkg))
        for s in stmts:
            if s["t"] == "include":
                how = s["how"]
                if how in INC_FILES:
                    with open(os.path.join(d, INC_FILES[how][0]), "w") as f:
                        f.write(INC_FILES[how][1])
                if how in ("nested",):
                    with open(os.path.join(d, "common.cond"), "w") as f:
                        f.write("THREADS = 3\n")
                if how in ("ext", "ext2"):
                    with open(os.path.join(d, "common.py" if how == "ext" else "common.cond.py"), "w") as f:
                        f.write("THREADS = 3\n")
                if how == "dir":
                    os.makedirs(os.path.join(d, "adir.cond"), exist_ok=True)
                if how in ("outside_root", "outside_symlink"):
                    with open(os.path.join(os.path.dirname(root), "vf-outside.cond"), "w") as f:
                        f.write("OUT = 1\n")
                    if how == "outside_symlink":
                        os.symlink(os.path.join(os.path.dirname(root), "vf-outside.cond"), os.path.join(d, "link.cond"))
                if how == "outside":
                    tgt = os.path.join(os.path.dirname(root), "vf-outside.cond") if not pkg else os.path.join(root, "outside.cond")
                    # for pkg 'p', '../outside.cond' is still inside the project: it is a legal include
                    with open(tgt, "w") as f:
                        f.write("OUT = 1\n")


# ----------------------------------------------------------------------
# model


def file_verdict(case, pkg):
    """Execute the model over one file.  Returns ("ok", tasks) or ("fault", label, where)."""
    tasks = {}
    env = {}
    for s in case["files"][pkg]:
        if s["t"] == "include":
            how = s["how"]
            if how in ("ok", "ok_abs", "ok_func", "ok_kw"):
                env.update({"THREADS": 3, "NAMES": ["x", "y"]})
                continue
            if how == "outside" and pkg:
                env.update({"OUT": 1})
                continue   # ../outside.cond from package p stays inside the project
            lab = "fault_in_included_file" if how in ("nested", "defines_task", "syntax", "runtime", "runtime_noargs", "runtime_raise") else "fault_include"
            return ("fault", lab, INC_FILES[how][0] if how in ("syntax", "runtime", "runtime_noargs", "runtime_raise") else "COND")
        if s["t"] == "py":
            return ("fault", "fault_syntax_error" if s["code"] in ("def (:", "x = [") else "fault_python_error", "COND")
        # syntax errors anywhere make the whole file fail before anything runs
        schema = SCHEMA[s["ctor"]]
        if s["pos"]:
            return ("fault", "fault_positional", "COND")
        vals = {}
        for k, src in s["kwargs"]:
            try:
                vals[k] = eval(src, {"THREADS": env.get("THREADS"), "object": object})
            except Exception:
                return ("fault", "fault_python_error", "COND")
            if "THREADS" in src and "THREADS" not in env:
                return ("fault", "fault_python_error", "COND")
        for k in vals:
            if k not in schema:
                return ("fault", "fault_extra_param", "COND")
        for k, (kind, req) in schema.items():
            if k not in vals:
                if req:
                    return ("fault", "fault_missing_param", "COND")
                continue
            if not _type_ok(kind, vals[k]):
                return ("fault", "fault_wrong_type", "COND")
        if not model.accepts_name(vals["name"]):
            return ("fault", "fault_bad_name", "COND")
        if vals["name"] in tasks:
            return ("fault", "fault_duplicate_name", "COND")
        tasks[vals["name"]] = (s["ctor"], vals)
    return ("ok", tasks)


def has_syntax_error(case, pkg):
    return any(s["t"] == "py" and s["code"] in ("def (:", "x = [") for s in case["files"][pkg])


def expectation(case):
    """-> (verdict, labels, fault_file) with verdict in accept / reject / either."""
    labels = set()
    loaded = {}
    faults_unneeded = False

    def load(pkg):
        if pkg not in loaded:
            if pkg not in case["files"]:
                loaded[pkg] = ("fault", "fault_task_level_needed", "COND")
            elif has_syntax_error(case, pkg):
                loaded[pkg] = ("fault", "fault_syntax_error", "COND")
            else:
                loaded[pkg] = file_verdict(case, pkg)
        return loaded[pkg]

    tpkg, tname = case["target"]
    stack = [(tpkg, tname)]
    seen = set()
    while stack:
        pkg, name = stack.pop()
        if (pkg, name) in seen:
            continue
        seen.add((pkg, name))
        fv = load(pkg)
        if fv[0] == "fault":
            return "reject", {fv[1]}, (pkg, fv[2])
        tasks = fv[1]
        if name not in tasks:
            return "reject", {"fault_task_level_needed"}, (pkg, "COND")
        ctor, vals = tasks[name]
        # task-level constraints
        ok = True
        if "args" in vals and not all(_prim(x) for x in vals["args"]):
            ok = False
        if "options" in vals and not all(isinstance(k, str) and _prim(x) for k, x in vals["options"].items()):
            ok = False
        resolved = []
        for d in vals.get("deps", []):
            if d.startswith(":"):
                nm = model.parse_relative(d)
                if nm is None:
                    ok = False
                    break
                resolved.append((pkg, nm))
            else:
                m = model.parse_identifier(d, require_prefix=True)
                if m is None:
                    ok = False
                    break
                resolved.append(("/".join(m[0]), m[1]))
        if ok and len(set(resolved)) != len(resolved):
            ok = False
        if ok and ctor == "combine" and len({n for _, n in resolved}) != len(resolved):
            ok = False
        if not ok:
            return "reject", {"fault_task_level_needed"}, (pkg, "COND")
        stack.extend(resolved)
    # accepted; note faults that exist only in unneeded definitions (task-level)
    return "accept", labels, None


_OLD = {}


def _old_python():
    """An interpreter of the oldest supported minor versions (setup.py: >= 3.8), if this machine has one, plus a PYTHONPATH
    that provides Conductor's only third-party import for them (tomli, pure Python, copied from /venv)."""
    if "py" not in _OLD:
        import atexit
        import glob
        import shutil
        import subprocess
        py = None
        for pat in ("/root/.pyenv/versions/3.9.*/bin/python", "/root/.pyenv/versions/3.8.*/bin/python"):
            g = sorted(glob.glob(pat))
            if g:
                py = g[0]
                break
        deps = None
        if py:
            src = glob.glob("/venv/lib/python3*/site-packages/tomli")
            deps = projgen.new_scratch("py39deps")
            atexit.register(shutil.rmtree, deps, True)
            if src:
                shutil.copytree(src[0], os.path.join(deps, "tomli"), ignore=shutil.ignore_patterns("__pycache__", "*.so"))
            from ..isolate import SRC
            env = dict(os.environ, PYTHONPATH=SRC + os.pathsep + deps)
            try:
                ok = subprocess.run([py, "-c", "import conductor.__main__"], env=env, capture_output=True, timeout=60).returncode == 0
            except Exception:  # noqa
                ok = False
            if not ok:
                py = None
        _OLD["py"], _OLD["deps"] = py, deps
    return _OLD["py"], _OLD["deps"]


def run_case(case):
    base = projgen.new_scratch("c15")
    root = os.path.join(base, "proj")   # so that '..' of the project is private to this case
    try:
        write(root, case)
        verdict, labels, fault_file = expectation(case)
        v = []
        tid = "//%s:%s" % tuple(case["target"])
        nfault = sum(1 for stmts in case["files"].values() for s in stmts
                     if s["t"] == "py" or (s["t"] == "include" and s["how"] not in ("ok", "ok_abs", "ok_func", "ok_kw")))
        if any(s["t"] == "include" and s["how"] in ("ok", "ok_abs", "ok_func", "ok_kw") for stmts in case["files"].values() for s in stmts):
            labels.add("include_ok")
        for stmts in case["files"].values():
            for s_ in stmts:
                if s_["t"] == "include":
                    labels.add("include:" + s_["how"])
        if any(s.get("form") in ("loop", "func", "comp") for stmts in case["files"].values() for s in stmts):
            labels.add("ctor_in_loop_or_func")
        ntasks = sum(1 for stmts in case["files"].values() for s in stmts if s["t"] == "task")
        if verdict == "accept" and ntasks >= 3:
            labels.add("well_formed_complex")
        if verdict == "accept":
            # a definition with a task-level fault that the target does not need?
            for pkg in case["files"]:
                fv = file_verdict(case, pkg) if not has_syntax_error(case, pkg) else ("fault",)
                if fv[0] == "ok":
                    for nm, (ctor, vals) in fv[1].items():
                        if ("args" in vals and not all(_prim(x) for x in vals["args"])) or \
                           ("options" in vals and not all(isinstance(k, str) and _prim(x) for k, x in vals["options"].items())):
                            labels.add("fault_in_unneeded_sibling")
        for argv in (["run", "--check", tid], ["run", tid]):
            res = run_cond(root, argv, kspec={"clock": 1000.0})
            err = res["stderr"].decode("utf-8", "replace")
            spawns = [e for e in res["events"] if e["e"] == "spawn"]
            check = "--check" in argv
            what = "cond %s" % " ".join(argv)
            # clean outcome
            if res.get("uncaught") or "Traceback (most recent call last)" in err:
                v.append(("traceback", "%s ended in a traceback: %s" % (what, (res.get("uncaught_tb") or err).strip().splitlines()[-1])))
                continue
            if res["status"] not in (0, 1):
                v.append(("odd_exit_status", "%s exit status %r" % (what, res["status"])))
            if res["status"] == 1 and not any(l.startswith("ERROR:") for l in err.splitlines()):
                v.append(("no_error_line", "%s exit 1 without an ERROR: line" % what))
            if verdict == "accept":
                if res["status"] != 0:
                    v.append(("rejects_well_formed", "%s rejected a well-formed definition: %s" % (what, err.strip()[:200])))
                if check and spawns:
                    v.append(("check_executed", "--check executed %d task(s)" % len(spawns)))
                if check and "Task(s) are OK" not in err:
                    v.append(("check_no_ok_message", "--check accepted without the OK message"))
            elif verdict == "reject":
                if res["status"] == 0:
                    v.append(("accepts_malformed:" + "+".join(sorted(labels)), "%s accepted a malformed definition (%s)" % (what, sorted(labels))))
                else:
                    if fault_file is not None:
                        fpkg, fname = fault_file
                        rel = os.path.join(fpkg, fname)
                        if rel not in err:
                            v.append(("file_not_named", "%s: diagnostic does not name %s: %s" % (what, rel, err.strip()[:200])))
                if spawns:
                    v.append(("executed_despite_error", "%s executed %d task(s) although the definition is malformed" % (what, len(spawns))))
            if check or verdict == "reject":
                made = [os.path.join(dp, d) for dp, dn, _ in os.walk(os.path.join(root, "cond-out")) for d in dn if ".task" in d]
                if made:
                    v.append(("output_created", "%s created task output %s" % (what, made[:2])))
        # the oldest supported interpreters: a well-formed project with an included file must be accepted there as well
        if verdict == "accept" and "include_ok" in labels and len(json.dumps(case, sort_keys=True, default=repr)) % 3 == 0:
            py, deps = _old_python()
            if py:
                import subprocess
                from ..isolate import SRC
                labels.add("also_checked_under_python_3_9")
                r = subprocess.run([py, "-m", "conductor", "run", "--check", tid], cwd=root, capture_output=True, text=True, timeout=120,
                                   env=dict(os.environ, PYTHONPATH=SRC + os.pathsep + deps, PYTHONHASHSEED="0"))
                if r.returncode != 0:
                    v.append(("rejects_well_formed:old_python", "cond run --check %s under %s rejected a well-formed definition: %s" % (
                        tid, py, r.stderr.strip()[-300:])))
        nontrivial = (bool(nfault) or verdict == "reject" or "include_ok" in labels) and ntasks >= 2
        seen, uv = set(), []
        for s in v:
            if s[0] not in seen:
                seen.add(s[0])
                uv.append(s)
        src = {pkg: "".join(render_stmt(s, pkg) for s in stmts) for pkg, stmts in case["files"].items()}
        return Outcome(uv, sorted(labels), nontrivial, {"verdict": verdict, "target": tid, "cond": src})
    finally:
        projgen.rm(base)
