"""C12 — restore is all-or-nothing and never overwrites."""
import os
import shutil
import tarfile

from hypothesis import strategies as st

from .. import fsorder, projgen, trees
from ..isolate import run_cond
from ..runner import Outcome

ID = "C12"
LEVEL = "fault_enumeration"
RULE = ("A valid archive of 1-5 versions (built by the real `cond archive` from generated rows/trees in nested packages) x one "
        "fault: index member removed; one listed directory removed (first/middle/last row); gzip stream truncated at a generated "
        "offset; one byte flipped; not a tar / empty file / a directory / missing path; one or several archive rows already "
        "recorded in the destination (first/middle/last); destination directory of one version already present but unrecorded; "
        "destination package directory is a file; Conductor killed (os._exit, no cleanup) at the k-th executed Python line of the "
        "restore command (quick: Hypothesis-drawn k + stride sweep of 2 fixed scenarios; thorough: every line, incl. shutil.py; half of the "
        "generated cases also count the lines of shutil.py, i.e. kill inside copytree/rmtree, under a generated directory-listing order); "
        "or no fault. x prior destination state (empty / unrelated versions / other versions of the same tasks). Oracle: on "
        "failure or kill, rows read through a fresh sqlite connection == rows before and every previously recorded directory is "
        "byte-identical; on reported success every archive row is recorded and its directory equals the archived tree. "
        "Non-trivial = the fault strikes after >=1 directory was copied or >=1 row inserted (multi-version archive, fault not at "
        "the first row / kill after the first copy). Distinct = SHA-1 of case JSON."
        " Also generated: prior state stale_staging (leftover of a killed restore); fault 'signal' = SIGINT/SIGTERM delivered through Conductor's own handler at the k-th executed line of the restore or at the return of VersionIndex.commit_changes (the signal arrived while sqlite committed), judged like a kill.")
ASSUMPTIONS = ["process-kill semantics at Python-line granularity (sqlite's own atomic commit is trusted; power loss is out of scope)",
               "new, unrecorded directories may be left behind by a failed restore (the property allows that)"]
ESSENTIAL = ["dup_row_not_first", "missing_dir_not_first", "kill_after_first_copy", "kill_between_last_copy_and_commit",
             "truncated_stream", "preexisting_unrecorded_dir", "no_fault_success", "missing_index", "prior_same_task_other_ts",
             "not_a_tar", "byte_flip", "kill_inside_shutil", "generated_listing_order", "interrupted_by_signal",
             "signal_during_index_commit"]
TECHNIQUE = "fault injection: generated archive corruptions + every executed line of `cond restore` as a kill point (sys.settrace, os._exit); all-or-nothing oracle over rows and tree snapshots"
LEVEL_TEXT = ("Structural and byte-level archive faults are generated; crash points are enumerated per Python line for fixed scenarios "
              "(every line in thorough) and sampled for generated ones. Judged on index rows read afresh and on tree snapshots.")
LEVEL_NOTE = "Trusted: sqlite journal rollback on reopen; vf/trees.py; sys.settrace line events as crash points."

TASKS = ["//:e", "//:x-1", "//a:e", "//a/b:_u", "//a/b/c:T9"]
TREES = [[["out.txt", "one\n"]], [["out.txt", "two\n"], ["sub/deep.bin", "\x00\xff"]], [], [["a b", "sp"], ["empty", None]],
         [["stdout.log", "log\n"], ["args.json", "[1]"]]]
SHUTIL = os.path.dirname(shutil.__file__) + "/shutil.py"


@st.composite
def _case(draw, tier):
    n = draw(st.sampled_from([1, 2, 3, 3, 4, 5]))
    rows = []
    used = set()
    for i in range(n):
        t = draw(st.sampled_from(TASKS))
        ts = draw(st.sampled_from([5, 6, 7, 100, 101, 2000000000]))
        if (t, ts) in used:
            continue
        used.add((t, ts))
        rows.append([t, ts, draw(st.sampled_from([None, "a" * 40, "b" * 40])), draw(st.booleans()), draw(st.sampled_from(range(len(TREES))))])
    fault = draw(st.sampled_from(["none", "no_index", "missing_dir", "missing_dir", "truncate", "flip", "not_tar", "dup_row", "dup_row",
                                  "preexisting_dir", "parent_is_file", "kill", "kill", "kill", "signal", "signal"]))
    case = {"rows": rows, "fault": fault, "pos": draw(st.sampled_from(range(5))), "frac": draw(st.sampled_from(range(1000))),
            "prior": draw(st.sampled_from(["empty", "unrelated", "same_task", "stale_staging"])), "ndup": draw(st.sampled_from([1, 1, 2])),
            "not_tar": draw(st.sampled_from(["garbage", "empty", "dir", "missing"]))}
    case["sig"] = draw(st.sampled_from([2, 15]))
    # kill points inside shutil.copytree/rmtree as well, and the order in which directory entries are listed
    case["deep"] = draw(st.booleans())
    case["order"] = draw(st.sampled_from(["fs", "fs", "sorted", "reversed", 1, 2]))
    return case


def strategy(tier):
    return _case(tier)


def examples(tier):
    return 1600 if tier == "quick" else 80000


FIXED = [
    {"rows": [["//:e", 5, None, False, 0], ["//a:e", 5, "a" * 40, True, 1], ["//a/b:_u", 7, None, False, 3]],
     "fault": "kill", "pos": 0, "frac": 0, "prior": "same_task", "ndup": 1, "not_tar": "garbage"},
    {"rows": [["//a/b/c:T9", 100, "b" * 40, False, 4], ["//:e", 6, None, False, 2]],
     "fault": "kill", "pos": 0, "frac": 0, "prior": "empty", "ndup": 1, "not_tar": "garbage"},
]
_NLINES = {}
_COMMIT_AT = {}


def enumerate_cases(tier, w, nworkers):
    stride = 3 if tier == "quick" else 1
    idx = 0
    for si, sc in enumerate(FIXED):
        n = count_lines(sc, tier)
        for k in range(1 + si % stride, n + 1, stride):
            if idx % nworkers == w:
                c = dict(sc)
                c["k"] = k
                c["fixed"] = si
                c["tier"] = tier
                yield c
            idx += 1


def _files(tier, deep=False):
    base = (os.path.join(os.path.realpath(os.environ.get("VERIF_REPO", "/repo")), "src", "conductor"),)
    return base + ((SHUTIL,) if tier == "thorough" or deep else ())


def _pre(case):
    order = case.get("order", "fs")
    return (lambda res_: fsorder.install(order)) if order != "fs" else None


def prepare(case, work):
    """Builds source, archive and destination under `work`.  Returns (archive_path, dst, rows_tuple_list)."""
    src = os.path.join(work, "src")
    dst = os.path.join(work, "dst")
    for root in (src, dst):
        os.makedirs(root)
        with open(os.path.join(root, "cond_config.toml"), "w") as f:
            f.write("disable_git = true\n")
        open(os.path.join(root, "COND"), "w").close()
    rows = [(r[0], r[1], r[2], bool(r[3])) for r in case["rows"]]
    projgen.seed_rows(src, rows, make_dirs=False)
    for r in case["rows"]:
        d = projgen.version_dir(src, r[0], r[1])
        os.makedirs(d, exist_ok=True)
        trees.write_tree(d, TREES[r[4]])
    arch = os.path.join(work, "a.tar.gz")
    res = run_cond(src, ["archive", "-o", arch])
    if res["status"] != 0:
        raise RuntimeError("could not build the archive: %r %s" % (res["status"], res["stderr"][-300:]))
    # prior destination state
    prior = []
    if case["prior"] == "unrelated":
        # incl. a package whose name equals the name of restore's staging directory
        prior = [("//z:other", 3, None, False), ("//:q", 9, "c" * 40, True), ("//archive-tmp:e", 4, None, False)]
    elif case["prior"] == "same_task":
        prior = [(r[0], r[1] + 1000, None, False) for r in rows[:2]]
    if prior:
        projgen.seed_rows(dst, prior, make_dirs=True, files=[("keep.txt", "prior data"), ("sub/k.bin", "\x01\x02")])
    else:
        os.makedirs(os.path.join(dst, "cond-out"), exist_ok=True)
    if case["prior"] == "stale_staging":
        # what a restore of ANOTHER archive leaves behind when it is killed right after extraction
        other = os.path.join(work, "other")
        os.makedirs(other)
        with open(os.path.join(other, "cond_config.toml"), "w") as f:
            f.write("disable_git = true\n")
        open(os.path.join(other, "COND"), "w").close()
        projgen.seed_rows(other, [("//stale:s", 77, None, False)], make_dirs=True)
        oarch = os.path.join(work, "other.tar.gz")
        if run_cond(other, ["archive", "-o", oarch])["status"] == 0:
            for name in ("archive-tmp", "archive-tmp.staging"):
                st_dir = os.path.join(dst, "cond-out", name)
                os.makedirs(st_dir, exist_ok=True)
                with tarfile.open(oarch, "r:gz") as t:
                    t.extractall(st_dir)
    return arch, dst, rows, src


def repack(arch, out, drop_prefix=None, drop_index=False):
    with tarfile.open(arch, "r:gz") as tin, tarfile.open(out, "w:gz") as tout:
        for m in tin.getmembers():
            name = m.name[2:] if m.name.startswith("./") else m.name
            if drop_index and name == "version_index_archive.sqlite":
                continue
            if drop_prefix and (name == drop_prefix or name.startswith(drop_prefix + "/")):
                continue
            tout.addfile(m, tin.extractfile(m) if m.isfile() else None)


def count_lines(case, tier="quick"):
    key = (repr(case["rows"]), case["prior"], tier, case.get("deep"), case.get("order"), case["fault"] == "signal")
    if key not in _NLINES:
        work = projgen.new_scratch("c12n")
        try:
            arch, dst, rows, src = prepare(case, work)
            res = run_cond(dst, ["restore", arch], inject={"mode": "count", "files": _files(tier, case.get("deep")),
                                                           "returns": ["commit_changes"] if case["fault"] == "signal" else False,
                                                           "record_at": case["fault"] == "signal"}, pre=_pre(case))
            _NLINES[key] = res.get("lines", 0)
            # the last event inside VersionIndex.commit_changes = the return from the final index commit
            tl = res.get("trace_lines") or []
            _COMMIT_AT[key] = max([i + 1 for i, e in enumerate(tl) if e[2] == "commit_changes"], default=None)
        finally:
            projgen.rm(work)
    return _NLINES[key]


def run_case(case):
    work = projgen.new_scratch("c12")
    try:
        return _run(case, work)
    finally:
        projgen.rm(work)


def _run(case, work):
    labels = set()
    v = []
    if not case["rows"]:
        return Outcome([], ["no_rows"], False, None)
    arch, dst, rows, src = prepare(case, work)
    fault = case["fault"]
    pos = case["pos"] % len(rows)
    target_arch = arch
    inject = None
    tier = case.get("tier", "quick")
    strikes_late = False
    if fault == "no_index":
        target_arch = os.path.join(work, "f.tar.gz")
        repack(arch, target_arch, drop_index=True)
        labels.add("missing_index")
    elif fault == "missing_dir":
        t, ts = rows[pos][0], rows[pos][1]
        rel = os.path.relpath(projgen.version_dir(src, t, ts), os.path.join(src, "cond-out"))
        target_arch = os.path.join(work, "f.tar.gz")
        repack(arch, target_arch, drop_prefix=rel)
        if pos > 0:
            labels.add("missing_dir_not_first")
            strikes_late = True
    elif fault == "truncate":
        data = open(arch, "rb").read()
        cut = max(1, len(data) * case["frac"] // 1000)
        target_arch = os.path.join(work, "f.tar.gz")
        open(target_arch, "wb").write(data[:cut])
        labels.add("truncated_stream")
    elif fault == "flip":
        data = bytearray(open(arch, "rb").read())
        off = len(data) * case["frac"] // 1000
        data[off] ^= 0x20
        target_arch = os.path.join(work, "f.tar.gz")
        open(target_arch, "wb").write(bytes(data))
        labels.add("byte_flip")
    elif fault == "not_tar":
        target_arch = os.path.join(work, "f.tar.gz")
        kind = case["not_tar"]
        if kind == "garbage":
            open(target_arch, "wb").write(b"this is not a tar archive\n" * 20)
        elif kind == "empty":
            open(target_arch, "wb").close()
        elif kind == "dir":
            os.makedirs(target_arch)
        labels.add("not_a_tar")
    elif fault == "dup_row":
        dups = [rows[(pos + j) % len(rows)] for j in range(min(case["ndup"], len(rows)))]
        if case["frac"] % 3 == 0:
            # the destination records the version with other metadata and its directory is gone (deleted by hand)
            dups = [(t, ts, "d" * 40 if c is None else None, not d) for t, ts, c, d in dups]
            projgen.seed_rows(dst, dups, make_dirs=False)
            labels.add("dup_row_without_dir")
        else:
            projgen.seed_rows(dst, dups, make_dirs=True, files=[("mine.txt", "destination's own version")])
        if pos > 0:
            labels.add("dup_row_not_first")
            strikes_late = True
    elif fault == "preexisting_dir":
        t, ts = rows[pos][0], rows[pos][1]
        d = projgen.version_dir(dst, t, ts)
        os.makedirs(d, exist_ok=True)
        open(os.path.join(d, "leftover.txt"), "w").write("unrecorded leftover")
        labels.add("preexisting_unrecorded_dir")
        strikes_late = pos > 0
    elif fault == "parent_is_file":
        t, ts = rows[pos][0], rows[pos][1]
        pkg = projgen.split_ident(t)[0]
        if pkg:
            p = os.path.join(dst, "cond-out", pkg.split("/")[0])
            if not os.path.exists(p):
                open(p, "w").write("a file where a package directory should be")
                labels.add("parent_is_file")
            else:
                fault = "none"
        else:
            fault = "none"
    if fault == "kill":
        n = count_lines(case, tier)
        k = case["k"] if "k" in case else 1 + case["frac"] * n // 1000
        inject = {"mode": "kill", "at": k, "files": _files(tier, case.get("deep"))}
    if fault == "signal":
        # SIGINT/SIGTERM instead of SIGKILL: Conductor's own handlers and clean-up code run.  Injection points are the executed
        # lines and the return of VersionIndex.commit_changes (a signal that arrives while sqlite commits is handled inside
        # that function, right after the C call and before it returns)
        n = count_lines(case, tier)
        k = 1 + case["frac"] * n // 1000
        ckey = (repr(case["rows"]), case["prior"], tier, case.get("deep"), case.get("order"), True)
        if case["frac"] % 3 == 0 and _COMMIT_AT.get(ckey):
            k = _COMMIT_AT[ckey]   # a third of the signal cases: the signal arrives while sqlite commits the index
        inject = {"mode": "abort", "at": k, "sig": case.get("sig", 2), "files": _files(tier, case.get("deep")), "returns": ["commit_changes"]}
    if case["prior"] == "same_task":
        labels.add("prior_same_task_other_ts")
    if case["prior"] == "stale_staging":
        labels.add("prior_stale_staging_dir")
    rows_before = projgen.read_rows(dst)
    snap_before = trees.snapshot(os.path.join(dst, "cond-out"))
    recorded_dirs = {os.path.relpath(projgen.version_dir(dst, t, ts), os.path.join(dst, "cond-out")) for t, ts, _, _ in rows_before}
    res = run_cond(dst, ["restore", target_arch], inject=inject, timeout=180, pre=_pre(case))
    rows_after = projgen.read_rows(dst)
    snap_after = trees.snapshot(os.path.join(dst, "cond-out"))
    killed = res["status"] == "killed"
    if fault == "signal" and res.get("inject"):
        # judged like a kill: nothing, or (when the signal came after the commit point) everything
        killed = True
        labels.add("interrupted_by_signal")
        inj = res["inject"]
        if inj.get("func") == "commit_changes":
            labels.add("signal_during_index_commit")
    ok = res["status"] == 0 and not killed
    summary = {"fault": case["fault"], "pos": pos, "rows": rows, "prior": case["prior"], "status": res["status"]}
    if killed:
        inj = res.get("inject") or {}
        summary["killed_at"] = "%s:%s %s" % (inj.get("file"), inj.get("line"), inj.get("func"))
        if str(inj.get("file", "")).endswith("shutil.py"):
            labels.add("kill_inside_shutil")
        if case.get("order", "fs") != "fs":
            labels.add("generated_listing_order")
        copied = [r for r in rows if os.path.isdir(projgen.version_dir(dst, r[0], r[1])) and
                  os.path.relpath(projgen.version_dir(dst, r[0], r[1]), os.path.join(dst, "cond-out")) not in recorded_dirs]
        if copied:
            labels.add("kill_after_first_copy")
            strikes_late = True
        if len(copied) == len(rows):
            labels.add("kill_between_last_copy_and_commit")
    if ok:
        # must have recorded everything, each with its directory and the archived tree
        want = set(rows) | set(rows_before)
        if set(rows_after) != want:
            v.append(("success_but_rows_differ", "restore reported success; recorded versions differ: missing %s extra %s" % (
                sorted(want - set(rows_after), key=repr)[:3], sorted(set(rows_after) - want, key=repr)[:3])))
        src_snap = trees.snapshot(os.path.join(src, "cond-out"))
        for t, ts, _, _ in rows:
            rel = os.path.relpath(projgen.version_dir(src, t, ts), os.path.join(src, "cond-out"))
            if trees.subtree(snap_after, rel) != trees.subtree(src_snap, rel) or rel not in snap_after:
                v.append(("success_but_tree_differs", "restore reported success; %s@%d is missing or differs from the archived tree" % (t, ts)))
        if fault == "none" or case["fault"] == "none":
            labels.add("no_fault_success")
        elif fault in ("no_index", "missing_dir", "not_tar", "dup_row", "parent_is_file", "truncate"):
            # (not "preexisting_dir": an UNRECORDED directory in the way is not one of the statement's reasons why a restore
            # cannot complete - C11 wants such a restore to succeed; if it does, the checks above demand the archive's tree)
            v.append(("fault_but_success:" + fault, "restore reported success although the archive/destination has the fault %s" % fault))
    else:
        if not killed and res["status"] == 0:
            pass
        complete = False
        if killed and set(rows_after) == set(rows) | set(rows_before):
            # killed after the commit point: the restore had completed; 'all' is as good as 'nothing'
            src_snap = trees.snapshot(os.path.join(src, "cond-out"))
            complete = all(
                os.path.relpath(projgen.version_dir(src, t, ts), os.path.join(src, "cond-out")) in snap_after and
                trees.subtree(snap_after, os.path.relpath(projgen.version_dir(src, t, ts), os.path.join(src, "cond-out"))) ==
                trees.subtree(src_snap, os.path.relpath(projgen.version_dir(src, t, ts), os.path.join(src, "cond-out")))
                for t, ts, _, _ in rows)
            if complete:
                labels.add("killed_after_commit_complete")
        if set(rows_after) != set(rows_before) and not complete:
            v.append(("rows_changed_after_failed_restore" + ("_killed" if killed else ""),
                      "restore %s; recorded versions changed: new %s, lost %s" % (
                          "was killed at " + summary.get("killed_at", "?") if killed else "failed (status %r)" % (res["status"],),
                          sorted(set(rows_after) - set(rows_before), key=repr)[:3], sorted(set(rows_before) - set(rows_after), key=repr)[:3])))
        if not killed and case["fault"] == "none" and fault == "none":
            v.append(("valid_restore_failed", "restore of a valid archive failed: %r %s" % (res["status"], res["stderr"][-300:])))
    # never overwrite: previously recorded directories byte-identical
    for rel in recorded_dirs:
        if trees.subtree(snap_before, rel) != trees.subtree(snap_after, rel) or (rel in snap_before) != (rel in snap_after):
            v.append(("existing_version_modified", "the directory of the already recorded version %s was modified" % rel))
    if fault == "preexisting_dir":
        t, ts = rows[pos][0], rows[pos][1]
        rel = os.path.relpath(projgen.version_dir(dst, t, ts), os.path.join(dst, "cond-out"))
        if ok and trees.subtree(snap_before, rel) != trees.subtree(snap_after, rel):
            pass  # covered by fault_but_success
    nontrivial = strikes_late and len(rows) >= 2
    seen, uv = set(), []
    for s in v:
        if s[0] not in seen:
            seen.add(s[0])
            uv.append(s)
    return Outcome(uv, sorted(labels), nontrivial, summary)
