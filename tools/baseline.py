#!/venv/bin/python
"""Run the repository's pinned baseline (guard OFF) and compare with BASELINE.json.
Exit 0 iff every stable_pass test passes."""
import json, os, subprocess, sys, tempfile, xml.etree.ElementTree as ET
base = json.load(open("/root/.vp/BASELINE.json")) if os.path.exists("/root/.vp/BASELINE.json") else None
repo = os.environ.get("VERIF_REPO", "/repo")
if not os.path.isdir(os.path.join(repo, "tests")):
    repo = "/repo"   # scratch copies hold only src/: run /repo's tests against $PYTHONPATH
with tempfile.TemporaryDirectory() as d:
    x = os.path.join(d, "j.xml")
    env = {k: v for k, v in os.environ.items() if not k.startswith("CONDUCTOR_VERIF")}
    env["PYTHONDONTWRITEBYTECODE"] = "1"
    subprocess.run(["/venv/bin/python", "-m", "pytest", "-ra", "-q", "-p", "no:cacheprovider", "--timeout=900",
                    "--continue-on-collection-errors", "--junitxml=" + x], cwd=repo, env=env,
                   stdout=subprocess.DEVNULL, stderr=subprocess.DEVNULL)
    passed = set()
    for tc in ET.parse(x).getroot().iter("testcase"):
        if not any(ch.tag in ("failure", "error", "skipped") for ch in tc):
            passed.add("%s::%s" % (tc.get("classname"), tc.get("name")))
if base is None:
    print("passed:", len(passed)); sys.exit(0)
missing = [t for t in base["stable_pass"] if t not in passed]
print("stable_pass=%d passing_now=%d missing=%s" % (len(base["stable_pass"]), len(passed), missing))
sys.exit(1 if missing else 0)
