#!/venv/bin/python
"""Sensitivity suite (DESIGN §2.8).

  tools/mutants.py [ID ...]           run every mutants/<ID>/*.patch and seeded/<ID>-*/patch.diff
  tools/mutants.py --base <rev> ID    run the check against a scratch copy of /repo at <rev>

Each patch is applied to a scratch copy of /repo (outside /repo and /verif), the
quick check runs with VERIF_REPO pointing at the copy and must exit 1; the copy is
removed afterwards.  Evidence/replays of these runs go to a scratch directory.
"""
import argparse, glob, json, os, shutil, subprocess, sys, tempfile, time

VERIF = os.path.dirname(os.path.dirname(os.path.abspath(__file__)))
BASE = "/dev/shm" if os.path.isdir("/dev/shm") else tempfile.gettempdir()


def scratch_copy(rev=None):
    d = tempfile.mkdtemp(prefix="vf-mut-", dir=BASE)
    if rev:
        subprocess.run("git -C /repo archive %s src | tar -x -C %s" % (rev, d), shell=True, check=True)
    else:
        shutil.copytree("/repo/src", os.path.join(d, "src"), symlinks=True, ignore=shutil.ignore_patterns("__pycache__", "*.egg-info"))
    return d


def run_check(prop, repo, tier="quick", seed=None, extra_env=None):
    out = tempfile.mkdtemp(prefix="vf-mutout-", dir=BASE)
    env = dict(os.environ, VERIF_REPO=repo, VERIF_EVIDENCE_DIR=os.path.join(out, "ev"),
               VERIF_REPLAY_DIR=os.path.join(out, "rp"))
    if seed is not None:
        env["VERIF_SEED"] = str(seed)
    env.update(extra_env or {})
    t0 = time.time()
    p = subprocess.run([os.path.join(VERIF, "check"), prop, "--tier", tier], cwd=VERIF, env=env,
                       capture_output=True, text=True)
    shutil.rmtree(out, ignore_errors=True)
    return p.returncode, p.stdout + p.stderr, time.time() - t0


def main():
    ap = argparse.ArgumentParser()
    ap.add_argument("props", nargs="*")
    ap.add_argument("--base")
    ap.add_argument("--patch", action="append")
    ap.add_argument("--tier", default="quick")
    ap.add_argument("-v", action="store_true")
    ap.add_argument("--baseline", action="store_true", help="also require the 37 stable tests to pass with the patch")
    a = ap.parse_args()
    if a.base:
        d = scratch_copy(a.base)
        try:
            for prop in a.props:
                rc, out, dt = run_check(prop, d, a.tier)
                print("%s @%s -> exit %d (%.0fs)" % (prop, a.base, rc, dt))
                print("\n".join(l for l in out.splitlines() if l.startswith(("VIOLATION", "  violated", "KNOWN", "HARNESS")))[:3000])
        finally:
            shutil.rmtree(d, ignore_errors=True)
        return 0
    jobs = []
    props = a.props or sorted({os.path.basename(os.path.dirname(p)) for p in glob.glob(os.path.join(VERIF, "mutants", "*", "*.patch"))}
                              | {json.load(open(m))["property"] for m in glob.glob(os.path.join(VERIF, "seeded", "*", "meta.json"))})
    for prop in props:
        for patch in sorted(glob.glob(os.path.join(VERIF, "mutants", prop, "*.patch"))):
            jobs.append((prop, patch))
        for meta in sorted(glob.glob(os.path.join(VERIF, "seeded", "*", "meta.json"))):
            m = json.load(open(meta))
            if m["property"] == prop or prop in m.get("also_checked_by", []):
                jobs.append((prop, os.path.join(os.path.dirname(meta), "patch.diff")))
    if a.patch:
        jobs = [(p, x) for p in a.props for x in a.patch]
    bad = 0
    for prop, patch in jobs:
        d = scratch_copy()
        try:
            r = subprocess.run(["patch", "-p1", "-s", "-d", d, "-i", patch], capture_output=True, text=True)
            if r.returncode != 0:
                print("%-4s %-60s PATCH-DOES-NOT-APPLY %s" % (prop, os.path.relpath(patch, VERIF), r.stdout.strip()[:200]))
                bad += 1
                continue
            if a.baseline:
                b = subprocess.run([os.path.join(VERIF, "tools", "baseline.py")], env=dict(os.environ, VERIF_REPO=d, PYTHONPATH=os.path.join(d, "src")),
                                   capture_output=True, text=True)
                if b.returncode != 0:
                    print("%-4s %-60s BREAKS-STABLE-TESTS (not a valid mutant) %s" % (prop, os.path.relpath(patch, VERIF), b.stdout.strip()[-150:]))
                    continue
            if a.baseline:
                b = subprocess.run([os.path.join(VERIF, "tools", "baseline.py")],
                                   env=dict(os.environ, VERIF_REPO=d, PYTHONPATH=os.path.join(d, "src")), capture_output=True, text=True)
                if b.returncode != 0:
                    print("%-4s %-60s BREAKS-STABLE-TESTS (not a valid mutant) %s" % (prop, os.path.relpath(patch, VERIF), b.stdout.strip()[-150:]))
                    continue
            rc, out, dt = run_check(prop, d, a.tier)
            verdict = {1: "caught", 0: "MISSED", 2: "HARNESS-ERROR"}.get(rc, "exit %d" % rc)
            if rc != 1:
                bad += 1
            sig = [l.strip() for l in out.splitlines() if l.startswith("  violated")][:1]
            print("%-4s %-60s %-8s %4.0fs %s" % (prop, os.path.relpath(patch, VERIF), verdict, dt, sig[0][:150] if sig else ""))
            if a.v or rc == 2:
                print(out[-3000:])
        finally:
            shutil.rmtree(d, ignore_errors=True)
        sys.stdout.flush()
    return 1 if bad else 0


if __name__ == "__main__":
    sys.exit(main())
