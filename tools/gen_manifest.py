#!/venv/bin/python
"""Regenerates MANIFEST.json from the property modules' metadata (run from /verif)."""
import importlib, json, os, sys
VERIF = os.path.dirname(os.path.dirname(os.path.abspath(__file__)))
sys.path.insert(0, VERIF)
ALL = ["C%02d" % i for i in range(1, 21)]
checks, na = [], []
for pid in ALL:
    path = os.path.join(VERIF, "vf", "props", pid.lower() + ".py")
    if not os.path.exists(path):
        na.append({"property_id": pid, "reason": "check not built yet in this session (design in DESIGN.md §3)"})
        continue
    m = importlib.import_module("vf.props." + pid.lower())
    if getattr(m, "NOT_APPLICABLE", None):
        na.append({"property_id": pid, "reason": m.NOT_APPLICABLE})
        continue
    checks.append({
        "property_id": pid,
        "quick_cmd": "./check %s --tier quick" % pid,
        "thorough_cmd": "./check %s --tier thorough" % pid,
        "evidence_file": "evidence/%s.json" % pid,
        "replay_cmd_template": "./check %s --replay {path}" % pid,
        "engine": "vf",
        "level_claimed": {"category": m.LEVEL, "text": m.LEVEL_TEXT, "design_ref": "DESIGN.md §3 " + pid},
        "level_note": m.LEVEL_NOTE,
        "technique": m.TECHNIQUE,
    })
man = {
    "version": 1,
    "setup_cmd": "/venv/bin/python -c 'import hypothesis' 2>/dev/null || /venv/bin/pip install --no-index --find-links /opt/veriftools/wheels hypothesis; mkdir -p evidence replays",
    "hooks": {
        "guard": "CONDUCTOR_VERIF",
        "enable": "no source hooks: all observation points are reached by interposition installed before conductor is imported (subprocess._fork_exec, os.waitpid/read/getpgid/killpg, time.time) and by sys.settrace; checks import conductor from /repo/src (or $VERIF_REPO/src)",
        "baseline_off_cmd": "/verif/tools/baseline.py",
        "source_commits": [],
        "add_only": True,
    },
    "engines": [{
        "name": "vf", "path": "vf/",
        "serves_properties": [c["property_id"] for c in checks],
        "kind_free_text": "Hypothesis-driven property-based testing / exhaustive small-scope enumeration / settrace fault enumeration of the real CLI in forked children, with a virtual process kernel that owns the schedule",
    }],
    "checks": checks,
    "not_applicable": na,
    "notes": "Every check: exit 0 = held on everything explored; exit 1 + VIOLATION line; exit 2 = harness error. VERIF_SEED, VERIF_TIER, VERIF_JOBS (default 16 workers) honoured. Known findings: KNOWN_FINDINGS.txt.",
}
json.dump(man, open(os.path.join(VERIF, "MANIFEST.json"), "w"), indent=1)
print("checks:", [c["property_id"] for c in checks], "n/a:", [x["property_id"] for x in na])
