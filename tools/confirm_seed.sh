#!/bin/bash
# tools/confirm_seed.sh <seed-dir> <PROP> [more PROPs]: confirm a seeded change independently, then run our checks on it.
# 1. patch applies to a scratch copy of /repo (HEAD)  2. stable tests pass with it  3. demo fails with / passes without
# 4. our quick check(s) for the property: expect exit 1
set -u
SD=$1; shift
WT=$(mktemp -d /dev/shm/seedwt-XXXX); chmod 755 $WT
git -C /repo archive HEAD | tar -x -C $WT
( cd $WT && patch -p1 -s < $SD/patch.diff ) || { echo "PATCH FAILED"; rm -rf $WT; exit 2; }
echo "== stable tests with the change"
VERIF_REPO=$WT PYTHONPATH=$WT/src /verif/tools/baseline.py
TMPSD=$(mktemp -d /dev/shm/seedcopy-XXXX); cp -r $SD/. $TMPSD/   # demos write next to themselves: run a scratch copy
DEMO=$(ls $TMPSD/demo.py $TMPSD/demo.sh 2>/dev/null | head -1)
run_demo() { if [[ $DEMO == *.py ]]; then SRC=$1 PYTHONPATH=$1 timeout 600 /venv/bin/python $DEMO; else SRC=$1 PYTHONPATH=$1 timeout 600 bash $DEMO; fi; }
echo "== demo without the change (expect 0)"; run_demo /repo/src >/dev/null 2>&1; echo "exit $?"
echo "== demo with the change (expect non-zero)"; run_demo $WT/src >/dev/null 2>&1; echo "exit $?"
for P in "$@"; do
  echo "== our check $P on the changed tree"
  OUT=$(mktemp -d /dev/shm/seedout-XXXX)
  VERIF_REPO=$WT VERIF_EVIDENCE_DIR=$OUT/ev VERIF_REPLAY_DIR=$OUT/rp /verif/check $P --tier quick | grep -E "^(VIOLATION|  violated|property=|HARNESS)" | cut -c1-300
  echo "exit ${PIPESTATUS[0]}"
  rm -rf $OUT
done
rm -rf $WT $TMPSD
