#!/bin/bash
# Runs every thorough check once (scratch evidence dir unless KEEP_EVIDENCE=1); prints one line per property.
cd "$(dirname "$0")/.."
IDS=${@:-C01 C02 C03 C04 C05 C06 C07 C08 C09 C10 C11 C12 C13 C14 C15 C16 C17 C18 C19 C20}
for p in $IDS; do
  if [ -z "$KEEP_EVIDENCE" ]; then export VERIF_EVIDENCE_DIR=$(pwd)/.thorough-ev; fi
  start=$(date +%s)
  out=$(./check $p --tier thorough 2>&1); rc=$?
  echo "$p exit=$rc $(( $(date +%s) - start ))s $(echo "$out" | grep -E '^property=' | cut -c1-120)"
  if [ $rc -ne 0 ]; then echo "$out" | grep -E "violated|VIOLATION|HARNESS|INCONCLUSIVE|Error|NOTE" | head -8 | cut -c1-500; fi
done
