#!/venv/bin/python
"""Generates mutants/<ID>/<name>.patch from (file, old, new) replacement specs (DESIGN §2.8 'must catch' lists)."""
import os, subprocess, shutil, sys, tempfile
VERIF = os.path.dirname(os.path.dirname(os.path.abspath(__file__)))
S = "src/conductor/"
SPECS = [
 ("C01", "enqueue-when-waiting-on-le-1", S+"execution/executor.py", "            if dep_of.waiting_on > 0:\n                continue", "            if dep_of.waiting_on > 1:\n                continue"),
 ("C09", "reset-waiting-on-skipped-crash", S+"execution/plan.py", "            op.reset_waiting_on()", "            pass"),
 ("C02", "progress-total-counts-cached", S+"execution/executor.py", "            self._num_tasks_to_run = plan.num_tasks_to_run", "            self._num_tasks_to_run = plan.num_tasks_to_run + len(plan.cached_tasks)"),
 ("C03", "deps-succeeded-any", S+"execution/ops/operation.py", "        return all(map(lambda task: task.succeeded(), self.exe_deps))", "        return len(self.exe_deps) == 0 or any(map(lambda task: task.succeeded(), self.exe_deps))"),
 ("C03", "skipped-counts-as-succeeded", S+"execution/ops/operation.py", "            or self.state == OperationState.SUCCEEDED_CACHED", "            or self.state == OperationState.SUCCEEDED_CACHED\n            or self.state == OperationState.SKIPPED"),
 ("C03", "stop-early-no-terminate", S+"execution/executor.py", "            # Only has an effect if we exited the loop above early due to\n            # encountering an error.\n            self._inflight_ops.terminate_processes()", "            pass"),
 ("C03", "exit-status-lost", S+"execution/executor.py", "            assert failed_task_ops[0].stored_error is not None\n            raise failed_task_ops[0].stored_error", "            assert failed_task_ops[0].stored_error is not None"),
 ("C04", "slots-le", S+"execution/executor.py", "                and len(self._inflight_ops) < self._slots", "                and len(self._inflight_ops) <= self._slots"),
 ("C04", "slot-exported-when-jobs-1", S+"execution/executor.py", "                        if self._running_parallel and self._slots > 1", "                        if self._running_parallel and self._slots >= 1"),
 ("C09", "slot-leak-on-failure-crash", S+"execution/executor.py", "        if handle.slot is not None:\n            self._available_slots.append(handle.slot)", "        if handle.slot is not None and not error_occurred:\n            self._available_slots.append(handle.slot)"),
 ("C05", "is-ancestor-args-swapped", S+"task_types/run.py", "            elif ctx.git.is_ancestor(\n                curr_commit.hash, candidate_ancestor_hash=version.commit_hash\n            ):", "            elif ctx.git.is_ancestor(\n                version.commit_hash, candidate_ancestor_hash=curr_commit.hash\n            ):"),
 ("C05", "tie-break-oldest", S+"task_types/run.py", "                    and v.timestamp > selected_version.timestamp", "                    and v.timestamp < selected_version.timestamp"),
 ("C05", "fallback-to-newest-with-foreign", S+"task_types/run.py", "        if (\n            len(null_commit_versions) == len(existing_versions)\n            and len(null_commit_versions) > 0\n        ):", "        if len(null_commit_versions) > 0:"),
 ("C05", "at-least-equal-is-older", S+"task_types/run.py", "        if self._most_relevant_version.commit_hash == at_least_commit:\n            # No need to re-run. The most relevant version matches `at_least_commit`.\n            return False\n", ""),
 ("C07", "cwd-project-root", S+"task_types/base.py", "        return pathlib.Path(ctx.project_root, self._identifier.path)", "        return pathlib.Path(ctx.project_root)"),
 ("C07", "args-after-options", S+"execution/ops/run_task_executable.py", "            [run, self._args.serialize_cmdline(), self._options.serialize_cmdline()]", "            [run, self._options.serialize_cmdline(), self._args.serialize_cmdline()]"),
 ("C07", "cond-deps-sorted", S+"execution/ops/run_task_executable.py", "                    map(str, self._deps_output_paths)", "                    sorted(map(str, self._deps_output_paths))"),
 ("C08", "last-timestamp-not-seeded", S+"execution/version_index.py", "                last_timestamp=(\n                    result[0] if result is not None and result[0] is not None else 0\n                ),", "                last_timestamp=0,"),
 ("C08", "same-second-bump-removed", S+"execution/version_index.py", "        if timestamp == self._last_timestamp:\n            timestamp += 1\n        elif", "        if"),
 ("C09", "extract-without-removing", S+"utils/sigchld.py", "        return self._returncodes.pop()", "        return self._returncodes[-1]"),
 ("C09", "handler-stops-after-first", S+"utils/sigchld.py", "                SigchldHelper.instance()._add_returncode(pid, returncode)", "                SigchldHelper.instance()._add_returncode(pid, returncode)\n                break"),
 ("C09", "unknown-pid-is-completion", S+"execution/executor.py", "            if pid in self._processes:\n                break", "            if pid in self._processes:\n                break\n            if len(self._processes) == 1:\n                pid = next(iter(self._processes))\n                break"),
 ("C10", "tee-stops-on-short-read", S+"utils/tee.py", "                if file is not None:\n                    try:\n                        file.write(data)", "                if len(data) < 4096 and file is not None:\n                    file.write(data)\n                    break\n                if file is not None:\n                    try:\n                        file.write(data)"),
 ("C10", "log-text-mode-replace", [S+"utils/tee.py", S+"utils/tee.py"], ["            file = open(file_name, \"wb\")", "                        file.write(data)"], ["            file = open(file_name, \"w\", errors=\"replace\")", "                        file.write(data.decode(\"utf-8\", errors=\"replace\"))"]),
 ("C10", "json-written-when-empty", S+"execution/ops/run_task_executable.py", "                if not self._args.empty():\n                    self._args", "                if True:\n                    self._args"),
 ("C11", "latest-per-task-ascending", S+"execution/version_index_queries.py", "  WHERE\n    task_identifier = ?\n  ORDER BY timestamp DESC\n  LIMIT 1", "  WHERE\n    task_identifier = ?\n  ORDER BY timestamp ASC\n  LIMIT 1"),
 ("C11", "latest-join-on-timestamp-only", S+"execution/version_index_queries.py", "    c.task_identifier = l.task_identifier\n    AND c.timestamp = l.timestamp", "    c.timestamp = l.timestamp"),
 ("C12", "insert-or-replace", S+"execution/version_index_queries.py", "  INSERT INTO version_index (\n    task_identifier,", "  INSERT OR REPLACE INTO version_index (\n    task_identifier,"),
 # ("C12", "dirs-exist-ok", ...) became EQUIVALENT with the D35 repair: restore removes an unrecorded directory in the way before it copies
 ("C12", "commit-before-copy", S+"cli/restore.py", "        # Copy over all archived task outputs\n", "        ctx.version_index.commit_changes()\n        # Copy over all archived task outputs\n"),
 ("C13", "descend-into-task-dirs", S+"cli/gc.py", "                if _REGULAR_TASK_REGEX.match(inner.name) is None:\n                    # If this directory is not a Conductor task directory, we\n                    # should \"explore\" it.\n                    stack.append(inner)", "                stack.append(inner)"),
 ("C13", "dry-run-deletes", S+"cli/gc.py", "                print(\"Would delete\", str(_relative_to_if_possible(exp_path, cwd)))", "                print(\"Would delete\", str(_relative_to_if_possible(exp_path, cwd)))\n                shutil.rmtree(exp_path, ignore_errors=True)"),
 ("C13", "verbose-only-deletion", S+"cli/gc.py", "                _remove_output_dir(exp_path)\n\n\ndef", "                    _remove_output_dir(exp_path)\n\n\ndef"),
 ("C14", "post-visit-marker-dropped", S+"parsing/task_index.py", "                    curr_path.remove(identifier)\n                    visited_identifiers.add(identifier)", "                    visited_identifiers.add(identifier)"),
 ("C14", "dup-detection-on-raw-strings", S+"parsing/task_index.py", "                    if dep_identifier in task_deps_set:", "                    if dep in task_deps_set:"),
 ("C15", "include-extension-in", S+"parsing/task_loader.py", "        if not candidate_path.endswith(COND_INCLUDE_EXTENSION):", "        if COND_INCLUDE_EXTENSION not in candidate_path:"),
 ("C15", "python-error-escapes", S+"parsing/task_loader.py", "        except Exception as ex:\n            run_err = TaskParseError(error_details=str(ex))\n            run_err.add_file_context(file_path=self._to_project_path(cond_file_path))\n            raise run_err from ex", "        except ArithmeticError as ex:\n            run_err = TaskParseError(error_details=str(ex))\n            run_err.add_file_context(file_path=self._to_project_path(cond_file_path))\n            raise run_err from ex"),
 ("C16", "no-terminate-on-abort", S+"execution/executor.py", "        except ConductorAbort:\n            self._inflight_ops.terminate_processes()\n            elapsed", "        except ConductorAbort:\n            elapsed"),
 ("C16", "abort-treated-as-failure-on-launch", S+"execution/executor.py", "                except ConductorAbort:\n                    next_op.set_state(OperationState.ABORTED)\n                    if handle is not None:", "                except KeyboardInterrupt:\n                    next_op.set_state(OperationState.ABORTED)\n                    if handle is not None:"),
 ("C17", "where-p-relative-to-cwd", S+"lib/path.py", "        return output_path.relative_to(ctx.project_root)", "        return pathlib.Path(os.path.relpath(output_path, pathlib.Path.cwd()))"),
 ("C17", "archive-default-output-in-cwd", S+"cli/archive.py", "        output_path = pathlib.Path(\n            ctx.output_path,\n            generate_archive_name(),\n        )", "        output_path = pathlib.Path(\n            pathlib.Path.cwd(),\n            generate_archive_name(),\n        )"),
 ("C19", "chain-to-first-instance", S+"task_types/stdlib/run_experiment_group.py", "            prev_experiment_identifier = experiment_identifier", "            if prev_experiment_identifier is None:\n                prev_experiment_identifier = experiment_identifier"),
 ("C19", "parallelizable-dropped", S+"task_types/stdlib/run_experiment_group.py", "                parallelizable=experiment.parallelizable,\n", ""),
 ("C19", "combine-lists-only-last", S+"task_types/stdlib/run_experiment_group.py", "        deps=relative_experiment_identifiers,", "        deps=relative_experiment_identifiers[-1:],"),
 ("C20", "name-regex-end-anchor-dropped", S+"task_identifier.py", "_NAME_REGEX = re.compile(r\"^{}\\Z\".format(IDENTIFIER_GROUP))", "_NAME_REGEX = re.compile(r\"^{}\".format(IDENTIFIER_GROUP))"),
 ("C20", "dot-admitted", S+"task_identifier.py", "IDENTIFIER_GROUP = \"[a-zA-Z0-9_-]+\"", "IDENTIFIER_GROUP = \"[a-zA-Z0-9_.-]+\""),
 ("C18", "entry-named-after-identifier-path", S+"execution/ops/combine_outputs.py", "            copy_into = self._output_path / dep_id.name", "            copy_into = self._output_path / str(dep_id).replace(\"/\", \"_\").replace(\":\", \"_\")"),
 ("C18", "non-link-silently-replaced", S+"execution/ops/combine_outputs.py", "            elif copy_into.exists():\n                # Unexpected - it should be a symlink.\n                raise CombineOutputFileConflict(output_file=str(copy_into))", "            elif copy_into.is_file():\n                copy_into.unlink()\n            elif copy_into.exists():\n                raise CombineOutputFileConflict(output_file=str(copy_into))"),
 ("C06", "dirty-flag-inverted", S+"utils/git.py", "            has_changes=(is_clean.returncode != 0),", "            has_changes=(is_clean.returncode == 0),"),
 ("C17", "farthest-ancestor-root", S+"context.py", "        for path in itertools.chain([here], here.parents):", "        for path in reversed(list(itertools.chain([here], here.parents))):"),
 ("C18", "relpath-wrong-base", S+"execution/ops/combine_outputs.py", "                    os.path.realpath(dep_dir), os.path.realpath(copy_into.parent)", "                    os.path.realpath(dep_dir), os.path.realpath(self._output_path.parent)"),
 ("C18", "stale-link-kept", S+"execution/ops/combine_outputs.py", "            if copy_into.is_symlink():\n                copy_into.unlink()", "            if copy_into.is_symlink():\n                continue"),
 ("C06", "record-before-returncode-check", S+"execution/ops/run_task_executable.py",
  "        if handle.returncode != 0:\n            raise TaskNonZeroExit(\n                task_identifier=self._identifier, code=handle.returncode\n            )\n",
  "        if self._version_to_record is not None:\n            ctx.version_index.insert_output_version(\n                self._identifier, self._version_to_record\n            )\n            ctx.version_index.commit_changes()\n            self._version_to_record = None\n        if handle.returncode != 0:\n            raise TaskNonZeroExit(\n                task_identifier=self._identifier, code=handle.returncode\n            )\n"),
 ("C06", "commit-before-serialize", S+"execution/ops/run_task_executable.py",
  "        try:\n            if self._serialize_args_options:\n                if not self._args.empty():",
  "        try:\n            if self._version_to_record is not None:\n                ctx.version_index.insert_output_version(\n                    self._identifier, self._version_to_record\n                )\n                ctx.version_index.commit_changes()\n                self._version_to_record = None\n            if self._serialize_args_options:\n                if not self._args.empty():"),
 ("C06", "row-inserted-at-planning-instead-of-finish",
  [S+"task_types/run.py", S+"execution/ops/run_task_executable.py"],
  ["    def create_new_version(self, ctx: \"c.Context\") -> Version:\n        self._create_new_version(ctx)\n        assert self._most_relevant_version is not None",
   "                ctx.version_index.insert_output_version(\n                    self._identifier, self._version_to_record\n                )\n"],
  ["    def create_new_version(self, ctx: \"c.Context\") -> Version:\n        self._create_new_version(ctx)\n        assert self._most_relevant_version is not None\n        ctx.version_index.insert_output_version(self._identifier, self._most_relevant_version)",
   ""]),
]
def main():
    only = set(sys.argv[1:])
    made = bad = 0
    for pid, name, rel, old, new in SPECS:
        if only and pid not in only: continue
        d = tempfile.mkdtemp(prefix="vf-mk-", dir="/dev/shm")
        try:
            subprocess.run("git -C /repo archive HEAD src | tar -x -C %s" % d, shell=True, check=True)
            subprocess.run(["git", "init", "-q"], cwd=d, check=True)
            subprocess.run("git add -A && git -c user.name=x -c user.email=x@x commit -qm base", shell=True, cwd=d, check=True)
            rels, olds, news = (rel, old, new) if isinstance(rel, list) else ([rel], [old], [new])
            okay = True
            for rel_, old_, new_ in zip(rels, olds, news):
                p = os.path.join(d, rel_)
                s = open(p).read()
                if s.count(old_) != 1:
                    print("SPEC DOES NOT MATCH (%d occurrences): %s %s" % (s.count(old_), pid, name)); okay = False; break
                open(p, "w").write(s.replace(old_, new_))
                r = subprocess.run([sys.executable, "-m", "py_compile", p], capture_output=True, text=True)
                if r.returncode != 0:
                    print("DOES NOT COMPILE: %s %s\n%s" % (pid, name, r.stderr[-300:])); okay = False; break
            if not okay:
                bad += 1; continue
            diff = subprocess.run(["git", "diff"], cwd=d, capture_output=True, text=True).stdout
            os.makedirs(os.path.join(VERIF, "mutants", pid), exist_ok=True)
            open(os.path.join(VERIF, "mutants", pid, name + ".patch"), "w").write(diff)
            made += 1
        finally:
            shutil.rmtree(d, ignore_errors=True)
    print("made %d patches, %d specs bad" % (made, bad))
main()
