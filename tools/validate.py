#!/opt/veriftools/pyvenv/bin/python
"""Validate MANIFEST.json and evidence/*.json against the schemas (needs jsonschema: tooling venv)."""
import glob, json, os, sys, jsonschema
V = os.path.dirname(os.path.dirname(os.path.abspath(__file__)))
ms = json.load(open('/root/.vp/MANIFEST.schema.json')); es = json.load(open('/root/.vp/EVIDENCE.schema.json'))
man = json.load(open(os.path.join(V, 'MANIFEST.json')))
jsonschema.validate(man, ms)
bad = 0
for c in man["checks"]:
    p = os.path.join(V, c["evidence_file"])
    if not os.path.exists(p):
        print("missing", p); bad += 1; continue
    try:
        ev = json.load(open(p)); jsonschema.validate(ev, es)
        assert ev["level"] == c["level_claimed"]["category"], "level mismatch"
        print("ok %s tier=%s evals=%s nontrivial=%s wall=%ss" % (c["property_id"], ev["tier"], ev["coverage"].get("evaluations"), ev["coverage"].get("distinct_nontrivial"), ev["wall_s"]))
    except Exception as ex:
        print("INVALID", p, str(ex)[:300]); bad += 1
claimed = {c["property_id"] for c in man["checks"]} | {x["property_id"] for x in man.get("not_applicable", [])}
props = {json.loads(l)["id"] for l in open(os.path.join(V, "properties.jsonl"))}
if claimed != props: print("coverage mismatch", props ^ claimed); bad += 1
sys.exit(1 if bad else 0)
