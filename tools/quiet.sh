#!/bin/bash
# tools/quiet.sh "<seeds>" [IDs...]: run quick checks at several seeds with scratch evidence dirs; report non-zero exits
cd "$(dirname "$0")/.."
SEEDS=${1:-"2 3 4 5"}; shift
IDS=${@:-C01 C02 C03 C04 C05 C06 C07 C08 C09 C10 C11 C12 C13 C14 C15 C16 C17 C18 C19 C20}
for s in $SEEDS; do for p in $IDS; do
  out=$(VERIF_SEED=$s VERIF_EVIDENCE_DIR=/dev/shm/quiet-ev VERIF_REPLAY_DIR=/verif/replays ./check $p 2>&1); rc=$?
  echo "seed=$s $p exit=$rc $(echo "$out" | grep -E '^property=' | cut -c1-110)"
  if [ $rc -ne 0 ]; then echo "$out" | grep -E "violated|VIOLATION|HARNESS|INCONCLUSIVE|Error" | head -5 | cut -c1-400; fi
done; done
rm -rf /dev/shm/quiet-ev
