#!/bin/bash
# tools/all_seeds.sh [seed-dir-names...]: apply every seeded change to a scratch copy of /repo HEAD and run the quick
# check of its property (and of "also_checked_by"); one line per seed: CAUGHT / MISSED.  Nothing is written to /repo.
cd "$(dirname "$0")/.."
SEEDS=${@:-$(ls seeded)}
for s in $SEEDS; do
  SD=seeded/$s
  P=$(python3 -c "import json;print(json.load(open('$SD/meta.json'))['property'])")
  if python3 -c "import json,sys;sys.exit(0 if json.load(open('$SD/meta.json')).get('neutralised') else 1)"; then echo "$s NEUTRALISED (no longer breaks the property on the current tree)"; continue; fi
  WT=$(mktemp -d /dev/shm/seedwt-XXXX); chmod 755 $WT
  git -C /repo archive HEAD | tar -x -C $WT
  if ! ( cd $WT && patch -p1 -s < $OLDPWD/$SD/patch.diff ) >/dev/null 2>&1; then echo "$s PATCH-FAILED"; rm -rf $WT; continue; fi
  OUT=$(mktemp -d /dev/shm/seedout-XXXX)
  res=$(VERIF_REPO=$WT VERIF_EVIDENCE_DIR=$OUT/ev VERIF_REPLAY_DIR=$OUT/rp ./check $P --tier quick 2>&1); rc=$?
  sig=$(echo "$res" | grep -E "^  violated" | head -2 | cut -c1-140 | tr '\n' ' ')
  if [ $rc -eq 1 ]; then echo "$s CAUGHT $sig"; elif [ $rc -eq 0 ]; then echo "$s MISSED"; else echo "$s EXIT-$rc $(echo "$res" | tail -2 | tr '\n' ' ' | cut -c1-200)"; fi
  rm -rf $WT $OUT
done
